"""Operators, builtin functions and methods of builtin types over mixed concrete/symbolic values.

Each summary that is an *axiomatised* contract of library behaviour (rather than a direct definition) registers
itself in `interp.used_summaries`, and the names end up in the evidence as the trusted base.
"""
from __future__ import annotations

import ast
import operator
from typing import Any

import z3

from .symexec import (BVW, Box, Builtin, BoundMethod, ClassVal, CountVal, Havocked, EnumerateVal, ExcVal, FuncVal, GenVal, ModuleVal,
                      Obj, PDict, PList, RangeVal, SDict, SSeq, SSet, SliceVal, UninterpFn, Unsupported, ZipVal,
                      is_sym_bool, is_sym_bv, is_sym_int, is_sym_real, is_sym_seq, is_sym_str, is_z3, to_z3,
                      _MISSING)

PY_BINOPS = {ast.Add: operator.add, ast.Sub: operator.sub, ast.Mult: operator.mul, ast.Div: operator.truediv,
             ast.FloorDiv: operator.floordiv, ast.Mod: operator.mod, ast.Pow: operator.pow,
             ast.LShift: operator.lshift, ast.RShift: operator.rshift, ast.BitOr: operator.or_,
             ast.BitAnd: operator.and_, ast.BitXor: operator.xor, ast.MatMult: operator.matmul}
DUNDER = {ast.Add: 'add', ast.Sub: 'sub', ast.Mult: 'mul', ast.Div: 'truediv', ast.FloorDiv: 'floordiv',
          ast.Mod: 'mod', ast.Pow: 'pow', ast.LShift: 'lshift', ast.RShift: 'rshift', ast.BitOr: 'or',
          ast.BitAnd: 'and', ast.BitXor: 'xor', ast.MatMult: 'matmul'}

CONCRETE = (bool, int, float, str, bytes, tuple, frozenset, type(None), complex)


def is_concrete(v: Any) -> bool:
    if isinstance(v, tuple):
        return all(is_concrete(x) for x in v)
    return isinstance(v, CONCRETE)


def is_key(v: Any) -> bool:
    """Usable as a concrete dict key: concrete values and heap objects (hashed by identity)."""
    return is_concrete(v) or isinstance(v, Obj)


def is_numeric(v: Any) -> bool:
    return isinstance(v, (bool, int, float)) or is_sym_int(v) or is_sym_real(v) or is_sym_bv(v) or is_sym_bool(v)


def is_stringy(v: Any) -> bool:
    return isinstance(v, str) or is_sym_str(v)


def num_pair(a, b):
    """Lift two numeric values to a common z3 sort."""
    if is_sym_bool(a):
        a = z3.If(a, 1, 0)
    if is_sym_bool(b):
        b = z3.If(b, 1, 0)
    if is_sym_bv(a) or is_sym_bv(b):
        like = a if is_sym_bv(a) else b
        return to_z3(a, like), to_z3(b, like)
    if is_sym_real(a) or is_sym_real(b) or isinstance(a, float) or isinstance(b, float):
        like = z3.RealVal(0)
        return to_z3(a, like), to_z3(b, like)
    return to_z3(a), to_z3(b)


def floordiv(a, b):
    return z3.If(b > 0, a / b, (-a) / (-b))     # z3 '/' on Int is Euclidean div; exact floor for positive divisor


def binop(I, op, a, b, lineno=0, inplace=False):
    t = type(op)
    if is_concrete(a) and is_concrete(b):
        try:
            return PY_BINOPS[t](a, b)
        except ZeroDivisionError:
            I.raise_('ZeroDivisionError', lineno=lineno)
        except TypeError:
            I.raise_('TypeError', lineno=lineno)
        except OverflowError:
            I.raise_('OverflowError', lineno=lineno)
    if isinstance(a, Obj) or isinstance(b, Obj):
        name = DUNDER[t]
        if isinstance(a, Obj):
            if inplace:
                fn = I.find_method(a, f'__i{name}__')
                if fn is not None:
                    r = I.call_function(fn, [a, b], {}, lineno)
                    if r is not NotImplementedVal:
                        return r
            fn = I.find_method(a, f'__{name}__')
            if fn is not None:
                r = I.call_function(fn, [a, b], {}, lineno)
                if r is not NotImplementedVal:
                    return r
        if isinstance(b, Obj):
            fn = I.find_method(b, f'__r{name}__')
            if fn is not None:
                r = I.call_function(fn, [b, a], {}, lineno)
                if r is not NotImplementedVal:
                    return r
        I.raise_('TypeError', f'unsupported operand for {name}', lineno=lineno)
    from . import arrays
    if isinstance(a, arrays.SArr) and t is ast.Add and inplace:
        arrays.extend(I, a, b, lineno)
        return a
    # sequences
    if isinstance(a, PList) or isinstance(b, PList):
        if t is ast.Add and isinstance(a, PList) and isinstance(b, PList):
            if inplace:
                a.items.extend(b.items)
                I.effects.append(('mutate', a, 'extend', lineno))
                return a
            return PList(a.items + b.items, fresh=True)
        if t is ast.Add and inplace and isinstance(a, PList):
            a.items.extend(I.iterate_concrete(b))
            I.effects.append(('mutate', a, 'extend', lineno))
            return a
        if t is ast.Mult:
            lst, n = (a, b) if isinstance(a, PList) else (b, a)
            if isinstance(n, int):
                return PList(lst.items * n, fresh=True)
        raise Unsupported(f'list operator {t.__name__}')
    if isinstance(a, SSeq) or isinstance(b, SSeq):
        if t is ast.Add:
            ea = seq_expr(I, a, like=b)
            eb = seq_expr(I, b, like=a)
            if inplace and isinstance(a, SSeq) and a.pytype != 'bytes':
                a.expr = z3.Concat(ea, eb)
                I.effects.append(('mutate', a, 'extend', lineno))
                return a
            pt = a.pytype if isinstance(a, SSeq) else b.pytype
            return SSeq(z3.Concat(ea, eb), pt, fresh=True)
        raise Unsupported(f'sequence operator {t.__name__}')
    if isinstance(a, tuple) and isinstance(b, tuple) and t is ast.Add:
        return a + b
    if is_stringy(a) and is_stringy(b):
        if t is ast.Add:
            return z3.Concat(to_z3(a), to_z3(b))
        raise Unsupported(f'string operator {t.__name__}')
    if is_stringy(a) and t is ast.Mult and isinstance(b, int):
        return str_concat(I, [a] * b)
    if isinstance(a, str) and len(a) == 1 and t is ast.Mult and is_sym_int(b):
        # c * n: a run of max(n, 0) copies of one character
        rep = I.fresh('repeat', z3.StringSort())
        I.path.assume(z3.And(z3.InRe(rep, z3.Star(z3.Re(z3.StringVal(a)))), z3.Length(rep) == z3.If(b < 0, 0, b)))
        return rep
    if isinstance(a, bytes) and t is ast.Mult and is_z3(b):
        from . import arrays
        return arrays.repeat_bytes(I, a, b)
    if is_stringy(a) and t is ast.Mod:
        raise Unsupported('%-formatting')
    if isinstance(a, SSet) or isinstance(b, SSet) or isinstance(a, (set, frozenset)) or isinstance(b, (set, frozenset)):
        return set_binop(I, t, a, b, lineno)
    if not (is_numeric(a) and is_numeric(b)):
        raise Unsupported(f'binary {t.__name__} on {type(a).__name__}, {type(b).__name__}')
    za, zb = num_pair(a, b)
    if is_sym_bv(za):
        return bv_binop(I, t, za, zb, lineno)
    if t is ast.Add:
        return za + zb
    if t is ast.Sub:
        return za - zb
    if t is ast.Mult:
        return za * zb
    if t is ast.Div:
        if I.path.branch(zb == 0, f'div0@{lineno}'):
            I.raise_('ZeroDivisionError', lineno=lineno)
        if za.is_int():
            za, zb = z3.ToReal(za), z3.ToReal(zb)
        return za / zb
    if t in (ast.FloorDiv, ast.Mod):
        if I.path.branch(zb == 0, f'div0@{lineno}'):
            I.raise_('ZeroDivisionError', lineno=lineno)
        if za.is_int():
            if z3.is_int_value(zb) and zb.as_long() > 0:
                return za / zb if t is ast.FloorDiv else za % zb
            q = floordiv(za, zb)
            return q if t is ast.FloorDiv else za - zb * q
        # real floor division / modulo
        q = z3.ToReal(z3.ToInt(za / zb))
        I.used_summaries.add('float-floor-mod')
        return q if t is ast.FloorDiv else za - zb * q
    if t is ast.Pow:
        if isinstance(b, int) and 0 <= b <= 8:
            r = to_z3(1, za)
            for _ in range(b):
                r = r * za
            return r
        if isinstance(a, int) and a == 2 and is_sym_int(zb):
            raise Unsupported('2**symbolic')
        raise Unsupported('** with symbolic exponent')
    if t is ast.LShift:
        if za.is_int() and isinstance(b, int) and b >= 0:
            return za * (1 << b)
        raise Unsupported('<< on mathematical integers with symbolic shift (use a bit-vector harness)')
    if t is ast.RShift:
        if za.is_int() and isinstance(b, int) and b >= 0:
            return za / (1 << b)
        raise Unsupported('>> on mathematical integers with symbolic shift (use a bit-vector harness)')
    if t is ast.BitAnd:
        for x, y in ((za, b), (zb, a)):
            if isinstance(y, int) and y >= 0 and (y & (y + 1)) == 0 and x.is_int():
                # x & (2^k - 1) == x mod 2^k for every integer x (two's complement semantics of Python ints)
                return x % (y + 1)
        raise Unsupported('& on mathematical integers (use a bit-vector harness)')
    raise Unsupported(f'operator {t.__name__} on mathematical integers (use a bit-vector harness)')


def bv_binop(I, t, za, zb, lineno):
    """64-bit vectors standing for non-negative Python ints; no-overflow is an obligation, not an assumption."""
    if t is ast.Add:
        I.path.oblige(f'bv.no_overflow@{lineno}', z3.BVAddNoOverflow(za, zb, False), lineno)
        return za + zb
    if t is ast.Sub:
        I.path.oblige(f'bv.no_underflow@{lineno}', z3.UGE(za, zb), lineno,
                      note='bit-vector harness models non-negative ints only')
        return za - zb
    if t is ast.Mult:
        I.path.oblige(f'bv.no_overflow@{lineno}', z3.BVMulNoOverflow(za, zb, False), lineno)
        return za * zb
    if t is ast.LShift:
        I.path.oblige(f'bv.no_overflow@{lineno}',
                      z3.And(z3.ULT(zb, za.size()), z3.LShR(za << zb, zb) == za), lineno)
        return za << zb
    if t is ast.RShift:
        return z3.If(z3.ULT(zb, za.size()), z3.LShR(za, zb), z3.BitVecVal(0, za.size()))
    if t is ast.BitAnd:
        return za & zb
    if t is ast.BitOr:
        return za | zb
    if t is ast.BitXor:
        return za ^ zb
    if t is ast.FloorDiv:
        if I.path.branch(zb == 0, f'div0@{lineno}'):
            I.raise_('ZeroDivisionError', lineno=lineno)
        return z3.UDiv(za, zb)
    if t is ast.Mod:
        if I.path.branch(zb == 0, f'div0@{lineno}'):
            I.raise_('ZeroDivisionError', lineno=lineno)
        return z3.URem(za, zb)
    raise Unsupported(f'bit-vector operator {t.__name__}')


class _NI:
    def __repr__(self):
        return 'NotImplemented'


NotImplementedVal = _NI()


def seq_expr(I, v, like=None):
    if isinstance(v, SSeq):
        return v.expr
    if is_sym_seq(v):
        return v
    if isinstance(v, (bytes, bytearray)):
        es = [z3.Unit(z3.IntVal(x)) for x in v]
        if not es:
            return z3.Empty(z3.SeqSort(z3.IntSort()))
        return z3.Concat(*es) if len(es) > 1 else es[0]
    if isinstance(v, (PList, list, tuple)):
        items = v.items if isinstance(v, PList) else list(v)
        if not items:
            if like is None:
                raise Unsupported('empty list with unknown element sort')
            return z3.Empty(seq_expr(I, like).sort())
        es = [z3.Unit(to_z3(x)) for x in items]
        return z3.Concat(*es) if len(es) > 1 else es[0]
    raise Unsupported(f'not a sequence: {type(v).__name__}')


def str_concat(I, parts):
    parts = [p for p in parts if not (isinstance(p, str) and p == '')]
    if all(isinstance(p, str) for p in parts):
        return ''.join(parts)
    # merge adjacent concrete pieces
    merged = []
    for p in parts:
        if isinstance(p, str) and merged and isinstance(merged[-1], str):
            merged[-1] += p
        else:
            merged.append(p)
    zs = [to_z3(p) for p in merged]
    return z3.Concat(*zs) if len(zs) > 1 else zs[0]


def format_value(I, val, spec, conversion, lineno):
    if conversion == ord('r'):
        val = call_builtin_repr(I, val)
    if spec == '' or spec is None:
        return to_str(I, val, lineno)
    if is_concrete(val) and isinstance(spec, str):
        return format(val, spec)
    fm = getattr(I, 'format_model', None)
    if fm is not None:
        return fm(I, val, spec, lineno)
    raise Unsupported(f'format spec {spec!r} on symbolic value')


def call_builtin_repr(I, val):
    if is_concrete(val):
        return repr(val)
    if is_sym_str(val) or is_sym_int(val):
        # only the fact that it is some string is modelled (error messages)
        I.used_summaries.add('repr() of a symbolic value: an unspecified string')
        return I.fresh('repr', z3.StringSort())
    raise Unsupported('repr of symbolic value')


def to_str(I, v, lineno=0):
    if isinstance(v, str) or is_sym_str(v):
        return v
    if is_concrete(v):
        return str(v)
    if is_sym_int(v):
        # str(int): z3 IntToStr is defined for non-negative ints only
        I.used_summaries.add('str(int)=decimal numeral')
        return z3.If(v >= 0, z3.IntToStr(v), z3.Concat(z3.StringVal('-'), z3.IntToStr(-v)))
    if isinstance(v, Obj):
        fn = I.find_method(v, '__str__') or I.find_method(v, '__repr__')
        if fn is not None:
            return I.call_function(fn, [v], {}, lineno)
    sm = getattr(I, 'str_model', None)
    if sm is not None:
        return sm(I, v, lineno)
    raise Unsupported(f'str() of {type(v).__name__}')


# ---------------------------------------------------------------------------------------------------------------
# comparisons

def compare(I, op, a, b, lineno=0):
    t = type(op)
    if t in (ast.Is, ast.IsNot):
        r = identical(a, b)
        return r if t is ast.Is else (not r if isinstance(r, bool) else z3.Not(r))
    if t in (ast.In, ast.NotIn):
        r = contains(I, b, a, lineno)
        return r if t is ast.In else (not r if isinstance(r, bool) else z3.Not(r))
    if t in (ast.Eq, ast.NotEq):
        r = equal(I, a, b, lineno)
        return r if t is ast.Eq else (not r if isinstance(r, bool) else z3.Not(r))
    pyop = {ast.Lt: operator.lt, ast.LtE: operator.le, ast.Gt: operator.gt, ast.GtE: operator.ge}[t]
    if is_concrete(a) and is_concrete(b):
        try:
            return pyop(a, b)
        except TypeError:
            I.raise_('TypeError', 'unorderable', lineno=lineno)
    if isinstance(a, Obj):
        name = {ast.Lt: '__lt__', ast.LtE: '__le__', ast.Gt: '__gt__', ast.GtE: '__ge__'}[t]
        fn = I.find_method(a, name)
        if fn is not None:
            return I.call_function(fn, [a, b], {}, lineno)
    if a is None or b is None:
        I.raise_('TypeError', 'unorderable None', lineno=lineno)
    if is_numeric(a) and is_numeric(b):
        za, zb = num_pair(a, b)
        if is_sym_bv(za):
            return {ast.Lt: z3.ULT, ast.LtE: z3.ULE, ast.Gt: z3.UGT, ast.GtE: z3.UGE}[t](za, zb)
        return pyop(za, zb)
    if is_stringy(a) and is_stringy(b):
        za, zb = to_z3(a), to_z3(b)
        if t is ast.Lt:
            return za < zb
        if t is ast.LtE:
            return za <= zb
        if t is ast.Gt:
            return zb < za
        return zb <= za
    if isinstance(a, tuple) and isinstance(b, tuple):
        raise Unsupported('ordering of symbolic tuples')
    raise Unsupported(f'ordering of {type(a).__name__} and {type(b).__name__}')


def identical(a, b):
    if isinstance(a, Havocked) or isinstance(b, Havocked):
        raise Unsupported(f'use of {a if isinstance(a, Havocked) else b}: a reference rebound in a loop, read before '
                          f'it is assigned again')
    if a is b:
        return True
    if a is None or b is None:
        return False
    if isinstance(a, (Obj, Box, PList, PDict)) or isinstance(b, (Obj, Box, PList, PDict)):
        return False
    if isinstance(a, bool) and isinstance(b, bool):
        return a == b
    if isinstance(a, (ClassVal, Builtin)) and isinstance(b, (ClassVal, Builtin)):
        return a.name == b.name
    if is_concrete(a) and is_concrete(b):
        return a is b or (type(a) is type(b) and a == b and isinstance(a, (int, str)))
    if is_sym_bool(a) or is_sym_bool(b):
        if isinstance(a, bool) or isinstance(b, bool) or (is_sym_bool(a) and is_sym_bool(b)):
            return to_z3(a) == to_z3(b)
        return False
    raise Unsupported('`is` on symbolic non-bool values')


def type_class(v):
    if v is None:
        return 'none'
    if isinstance(v, bool) or is_sym_bool(v):
        return 'num'
    if isinstance(v, (int, float)) or is_sym_int(v) or is_sym_real(v) or is_sym_bv(v):
        return 'num'
    if isinstance(v, str) or is_sym_str(v):
        return 'str'
    if isinstance(v, bytes):
        return 'bytes'
    if isinstance(v, tuple):
        return 'tuple'
    if isinstance(v, (PList, list)):
        return 'list'
    if isinstance(v, SSeq):
        return 'bytes' if v.pytype in ('bytes', 'bytearray') else 'list'
    if isinstance(v, (SSet, set, frozenset)):
        return 'set'
    if isinstance(v, (SDict, PDict, dict)):
        return 'dict'
    if isinstance(v, Obj):
        return 'obj'
    return type(v).__name__


def equal(I, a, b, lineno=0):
    if a is b and not is_z3(a):
        return True
    if is_concrete(a) and is_concrete(b):
        return a == b
    ta, tb = type_class(a), type_class(b)
    if isinstance(a, Obj) or isinstance(b, Obj):
        for x, y in ((a, b), (b, a)):
            if isinstance(x, Obj):
                fn = I.find_method(x, '__eq__')
                if fn is not None:
                    r = I.call_function(fn, [x, y], {}, lineno)
                    if r is not NotImplementedVal:
                        return r
        return a is b
    if ta != tb:
        return False
    if ta == 'num':
        za, zb = num_pair(a, b)
        return za == zb
    if ta == 'str':
        return to_z3(a) == to_z3(b)
    if ta == 'tuple':
        if len(a) != len(b):
            return False
        parts = [equal(I, x, y, lineno) for x, y in zip(a, b)]
        if any(p is False for p in parts):
            return False
        parts = [p for p in parts if p is not True]
        if not parts:
            return True
        return z3.And(*[to_z3(p) for p in parts])
    if ta == 'list' or ta == 'bytes':
        if isinstance(a, (PList, list)) and isinstance(b, (PList, list)):
            ia = a.items if isinstance(a, PList) else a
            ib = b.items if isinstance(b, PList) else b
            return equal(I, tuple(ia), tuple(ib), lineno)
        return seq_expr(I, a, like=b) == seq_expr(I, b, like=a)
    if ta == 'set':
        return set_expr(I, a, like=b) == set_expr(I, b, like=a)
    if ta == 'dict' and isinstance(a, SDict) and isinstance(b, SDict):
        return z3.And(a.expr[0] == b.expr[0], dict_vals_equal(a, b))
    if ta == 'none':
        return True
    raise Unsupported(f'== on {type(a).__name__} and {type(b).__name__}')


def dict_vals_equal(a, b):
    k = z3.Const('k!eq', a.expr[0].domain())
    return z3.ForAll([k], z3.Implies(a.expr[0][k], a.expr[1][k] == b.expr[1][k]))


def contains(I, container, item, lineno=0):
    if is_concrete(container) and is_concrete(item) and not isinstance(container, (int, float, type(None))):
        try:
            return item in container
        except TypeError:
            I.raise_('TypeError', lineno=lineno)
    if isinstance(container, Obj):
        fn = I.find_method(container, '__contains__')
        if fn is not None:
            return I.truth(I.call_function(fn, [container, item], {}, lineno))
        raise Unsupported(f'`in` on {container.cls}')
    if isinstance(container, SSet):
        if container.expr is None:
            return False
        return z3.Select(container.expr, to_z3(item))
    if isinstance(container, SDict):
        return z3.Select(container.expr[0], to_z3(item))
    if isinstance(container, PDict):
        if is_key(item) and all(is_key(k) for k in container.items):
            return item in container.items
        container = list(container.items.keys())
    if isinstance(container, dict):
        container = list(container.keys())
    if isinstance(container, PList):
        container = container.items
    if isinstance(container, (list, tuple, set, frozenset)):
        parts = [equal(I, item, c, lineno) for c in container]
        if any(p is True for p in parts):
            return True
        parts = [to_z3(p) for p in parts if p is not False]
        if not parts:
            return False
        return z3.Or(*parts) if len(parts) > 1 else parts[0]
    if is_stringy(container):
        if not is_stringy(item):
            I.raise_('TypeError', lineno=lineno)
        return z3.Contains(to_z3(container), to_z3(item))
    if isinstance(container, SSeq) or is_sym_seq(container):
        e = seq_expr(I, container)
        return z3.Contains(e, z3.Unit(to_z3(item)))
    if isinstance(container, RangeVal):
        z = to_z3(item)
        return z3.And(to_z3(container.start) <= z, z < to_z3(container.stop))
    if isinstance(container, bytes):
        parts = [to_z3(item) == c for c in set(container)]
        return z3.Or(*parts) if parts else False
    raise Unsupported(f'`in` on {type(container).__name__}')


# ---------------------------------------------------------------------------------------------------------------
# sets

def set_expr(I, v, like=None, elem=None):
    if isinstance(v, SSet):
        if v.expr is not None:
            return v.expr
        sort = None
        if like is not None:
            le = set_expr(I, like) if not (isinstance(like, SSet) and like.expr is None) else None
            if le is not None:
                sort = le.sort().domain()
        if sort is None and elem is not None:
            sort = to_z3(elem).sort()
        if sort is None:
            raise Unsupported('empty set with unknown element sort')
        return z3.K(sort, z3.BoolVal(False))
    if isinstance(v, (set, frozenset, list, tuple, PList)):
        items = v.items if isinstance(v, PList) else list(v)
        if not items:
            if like is None and elem is None:
                raise Unsupported('empty set with unknown element sort')
            sort = set_expr(I, like).sort().domain() if like is not None else to_z3(elem).sort()
            return z3.K(sort, z3.BoolVal(False))
        zs = [to_z3(x) for x in items]
        arr = z3.K(zs[0].sort(), z3.BoolVal(False))
        for z in zs:
            arr = z3.Store(arr, z, True)
        return arr
    raise Unsupported(f'not a set: {type(v).__name__}')


def set_binop(I, t, a, b, lineno):
    ea = set_expr(I, a, like=b)
    eb = set_expr(I, b, like=a)
    sort = ea.sort().domain()
    x = z3.Const(I.path.fresh_name('sx'), sort)
    if t is ast.BitOr:
        return SSet(z3.Lambda([x], z3.Or(ea[x], eb[x])), fresh=True)
    if t is ast.BitAnd:
        return SSet(z3.Lambda([x], z3.And(ea[x], eb[x])), fresh=True)
    if t is ast.Sub:
        return SSet(z3.Lambda([x], z3.And(ea[x], z3.Not(eb[x]))), fresh=True)
    if t is ast.BitXor:
        return SSet(z3.Lambda([x], z3.Xor(ea[x], eb[x])), fresh=True)
    raise Unsupported(f'set operator {t.__name__}')


def set_nonempty(I, s: SSet):
    if s.expr is None:
        return False
    x = z3.Const(I.path.fresh_name('ne'), s.expr.sort().domain())
    return z3.Exists([x], s.expr[x])


# ---------------------------------------------------------------------------------------------------------------
# subscripts

def norm_index(I, idx, length, lineno, what='index'):
    """Python index normalisation with IndexError; returns a non-negative in-range index."""
    if isinstance(idx, int) and isinstance(length, int):
        if idx < 0:
            idx += length
        if not 0 <= idx < length:
            I.raise_('IndexError', lineno=lineno)
        return idx
    zi, zl = to_z3(idx), to_z3(length)
    if is_sym_bv(zi):
        zi = z3.BV2Int(zi)
    if is_sym_bv(zl):
        zl = z3.BV2Int(zl)
    if I.path.branch(z3.And(zi >= 0, zi < zl), f'{what}.inrange@{lineno}'):
        return zi
    if I.path.branch(z3.And(zi < 0, zi >= -zl), f'{what}.negative@{lineno}'):
        return zi + zl
    I.raise_('IndexError', lineno=lineno)


def slice_bounds(I, sl: SliceVal, length):
    """Python slice clamping for step None/1: returns (start, stop) with 0 <= start, stop <= length."""
    if sl.step not in (None, 1):
        raise Unsupported('extended slice')

    def clamp(v, default):
        if v is None:
            return default
        if isinstance(v, int) and isinstance(length, int):
            if v < 0:
                v += length
            return min(max(v, 0), length)
        zv, zl = to_z3(v), to_z3(length)
        zv = z3.If(zv < 0, zv + zl, zv)
        return z3.If(zv < 0, 0, z3.If(zv > zl, zl, zv))
    return clamp(sl.start, 0), clamp(sl.stop, length)


def subscript(I, obj, idx, lineno=0):
    from . import arrays
    if isinstance(obj, arrays.SArr):
        return arrays.get(I, obj, idx, lineno)
    if isinstance(obj, arrays.View):
        if isinstance(idx, SliceVal):
            raise Unsupported('slice of a buffer slice')
        i = norm_index(I, arrays.as_int(idx), obj.count, lineno)
        return obj.fn(to_z3(i))
    if isinstance(obj, Obj):
        fn = I.find_method(obj, '__getitem__')
        if fn is None:
            I.raise_('TypeError', 'not subscriptable', lineno=lineno)
        return I.call_function(fn, [obj, idx], {}, lineno)
    if obj is None:
        I.raise_('TypeError', 'None is not subscriptable', lineno=lineno)
    if isinstance(obj, ClassVal):
        return obj  # generic alias List[int] etc.
    if isinstance(obj, PList):
        if obj.builder:
            raise Unsupported('indexing a list abstracted as a string builder')
        if isinstance(idx, SliceVal):
            if all(isinstance(x, (int, type(None))) for x in (idx.start, idx.stop, idx.step)):
                return PList(obj.items[idx.start:idx.stop:idx.step], fresh=True)
            raise Unsupported('symbolic slice of concrete-length list')
        return index_concrete(I, obj.items, idx, lineno)
    if isinstance(obj, (tuple, list)):
        if isinstance(idx, SliceVal):
            if all(isinstance(x, (int, type(None))) for x in (idx.start, idx.stop, idx.step)):
                return obj[idx.start:idx.stop:idx.step]
            raise Unsupported('symbolic slice of tuple')
        return index_concrete(I, list(obj), idx, lineno)
    if isinstance(obj, PDict) or isinstance(obj, dict):
        items = obj.items if isinstance(obj, PDict) else obj
        if is_key(idx):
            if idx in items:
                return items[idx]
            I.raise_('KeyError', idx, lineno=lineno)
        for k, v in items.items():
            e = equal(I, idx, k, lineno)
            if e is False:
                continue
            if e is True or I.path.branch(e, f'key=={k!r}@{lineno}'):
                return v
        I.raise_('KeyError', idx, lineno=lineno)
    if isinstance(obj, SDict):
        k = to_z3(idx)
        if I.path.branch(z3.Select(obj.expr[0], k), f'haskey@{lineno}'):
            return z3.Select(obj.expr[1], k)
        I.raise_('KeyError', idx, lineno=lineno)
    if isinstance(obj, (str, bytes)) and not isinstance(idx, SliceVal) and is_concrete(idx):
        try:
            return obj[idx]
        except IndexError:
            I.raise_('IndexError', lineno=lineno)
        except TypeError:
            I.raise_('TypeError', lineno=lineno)
    if isinstance(obj, (str, bytes)) and isinstance(idx, SliceVal) and \
            all(isinstance(x, (int, type(None))) for x in (idx.start, idx.stop, idx.step)):
        return obj[idx.start:idx.stop:idx.step]
    if is_stringy(obj):
        s = to_z3(obj)
        n = z3.Length(s)
        if isinstance(idx, SliceVal):
            lo, hi = slice_bounds(I, idx, n)
            zlo, zhi = to_z3(lo), to_z3(hi)
            return z3.SubString(s, zlo, z3.If(zhi > zlo, zhi - zlo, 0))
        i = norm_index(I, idx, n, lineno)
        return z3.SubString(s, to_z3(i), 1)
    if isinstance(obj, (SSeq, bytes, bytearray)) or is_sym_seq(obj):
        e = seq_expr(I, obj)
        n = z3.Length(e)
        pt = obj.pytype if isinstance(obj, SSeq) else 'bytes'
        if isinstance(idx, SliceVal):
            lo, hi = slice_bounds(I, idx, n)
            zlo, zhi = to_z3(lo), to_z3(hi)
            return SSeq(z3.Extract(e, zlo, z3.If(zhi > zlo, zhi - zlo, 0)), pt, fresh=True)
        i = norm_index(I, idx, n, lineno)
        return e[to_z3(i)]
    if isinstance(obj, RangeVal):
        raise Unsupported('range subscript')
    raise Unsupported(f'subscript of {type(obj).__name__}')


def index_concrete(I, items: list, idx, lineno):
    n = len(items)
    if isinstance(idx, int):
        try:
            return items[idx]
        except IndexError:
            I.raise_('IndexError', lineno=lineno)
    if not is_z3(idx):
        I.raise_('TypeError', 'bad index', lineno=lineno)
    i = norm_index(I, idx, n, lineno)
    # split on the value (n is concrete and small)
    for k in range(n):
        if k == n - 1 or I.path.branch(i == k, f'idx=={k}@{lineno}'):
            if k == n - 1:
                I.path.assume(i == k)
            return items[k]
    I.raise_('IndexError', lineno=lineno)


def store_subscript(I, obj, idx, v, lineno=0):
    from . import arrays
    if isinstance(obj, arrays.SArr):
        return arrays.store(I, obj, idx, v, lineno)
    if isinstance(obj, Obj):
        fn = I.find_method(obj, '__setitem__')
        if fn is None:
            I.raise_('TypeError', 'no item assignment', lineno=lineno)
        I.call_function(fn, [obj, idx, v], {}, lineno)
        return
    if isinstance(obj, PList):
        I.effects.append(('mutate', obj, 'setitem', lineno))
        if isinstance(idx, SliceVal):
            if all(isinstance(x, (int, type(None))) for x in (idx.start, idx.stop, idx.step)):
                obj.items[idx.start:idx.stop:idx.step] = I.iterate_concrete(v)
                return
            raise Unsupported('symbolic slice store')
        if isinstance(idx, int):
            try:
                obj.items[idx] = v
            except IndexError:
                I.raise_('IndexError', lineno=lineno)
            return
        i = norm_index(I, idx, len(obj.items), lineno)
        # symbolic index into concrete-length list: every cell becomes an ite
        obj.items = [I.ite(i == k, v, old) for k, old in enumerate(obj.items)]
        return
    if isinstance(obj, PDict):
        I.effects.append(('mutate', obj, 'setitem', lineno))
        if is_key(idx):
            obj.items[idx] = v
            return
        raise Unsupported('symbolic key store into concrete dict (use SDict in the harness)')
    if isinstance(obj, SDict):
        I.effects.append(('mutate', obj, 'setitem', lineno))
        k = to_z3(idx)
        dom, val = obj.expr
        if isinstance(v, Obj):
            I.refs[v.oid] = v
            v = z3.IntVal(v.oid)
        obj.expr = (z3.Store(dom, k, True), z3.Store(val, k, to_z3(v)))
        return
    if isinstance(obj, SSeq):
        if obj.pytype == 'bytes':
            I.raise_('TypeError', 'bytes is immutable', lineno=lineno)
        I.effects.append(('mutate', obj, 'setitem', lineno))
        e = obj.expr
        n = z3.Length(e)
        if isinstance(idx, SliceVal):
            lo, hi = slice_bounds(I, idx, n)
            zlo, zhi = to_z3(lo), to_z3(hi)
            zhi = z3.If(zhi > zlo, zhi, zlo)
            mid = seq_expr(I, v, like=obj)
            obj.expr = z3.Concat(z3.Extract(e, 0, zlo), mid, z3.Extract(e, zhi, n - zhi))
            return
        i = to_z3(norm_index(I, idx, n, lineno))
        obj.expr = z3.Concat(z3.Extract(e, 0, i), z3.Unit(to_z3(v)), z3.Extract(e, i + 1, n - i - 1))
        return
    raise Unsupported(f'item store on {type(obj).__name__}')


def del_subscript(I, obj, idx, lineno=0):
    if isinstance(obj, Obj):
        fn = I.find_method(obj, '__delitem__')
        if fn is None:
            I.raise_('TypeError', 'no item deletion', lineno=lineno)
        I.call_function(fn, [obj, idx], {}, lineno)
        return
    if isinstance(obj, PDict):
        I.effects.append(('mutate', obj, 'delitem', lineno))
        if is_key(idx):
            if idx not in obj.items:
                I.raise_('KeyError', idx, lineno=lineno)
            del obj.items[idx]
            return
        raise Unsupported('symbolic key delete from concrete dict')
    if isinstance(obj, SDict):
        I.effects.append(('mutate', obj, 'delitem', lineno))
        k = to_z3(idx)
        dom, val = obj.expr
        if not I.path.branch(z3.Select(dom, k), f'delkey@{lineno}'):
            I.raise_('KeyError', idx, lineno=lineno)
        obj.expr = (z3.Store(dom, k, False), val)
        return
    if isinstance(obj, PList):
        I.effects.append(('mutate', obj, 'delitem', lineno))
        if isinstance(idx, SliceVal):
            if all(isinstance(x, (int, type(None))) for x in (idx.start, idx.stop, idx.step)):
                del obj.items[idx.start:idx.stop:idx.step]
                return
        elif isinstance(idx, int):
            try:
                del obj.items[idx]
            except IndexError:
                I.raise_('IndexError', lineno=lineno)
            return
        raise Unsupported('symbolic delete from list')
    if isinstance(obj, SSeq):
        I.effects.append(('mutate', obj, 'delitem', lineno))
        e = obj.expr
        n = z3.Length(e)
        if isinstance(idx, SliceVal):
            lo, hi = slice_bounds(I, idx, n)
            zlo, zhi = to_z3(lo), to_z3(hi)
            zhi = z3.If(zhi > zlo, zhi, zlo)
            obj.expr = z3.Concat(z3.Extract(e, 0, zlo), z3.Extract(e, zhi, n - zhi))
            return
        i = to_z3(norm_index(I, idx, n, lineno))
        obj.expr = z3.Concat(z3.Extract(e, 0, i), z3.Extract(e, i + 1, n - i - 1))
        return
    raise Unsupported(f'item delete on {type(obj).__name__}')


# ---------------------------------------------------------------------------------------------------------------
# methods of builtin types

def bound_builtin_method(I, obj, name, lineno):
    tbl = None
    if is_stringy(obj):
        tbl = STR_METHODS
    elif isinstance(obj, PList):
        tbl = PLIST_METHODS
    elif isinstance(obj, SSeq):
        tbl = SSEQ_METHODS
    elif isinstance(obj, SSet):
        tbl = SSET_METHODS
    elif isinstance(obj, (PDict,)):
        tbl = PDICT_METHODS
    elif isinstance(obj, SDict):
        tbl = SDICT_METHODS
    elif isinstance(obj, tuple):
        tbl = TUPLE_METHODS
    elif isinstance(obj, (set, frozenset)):
        tbl = PYSET_METHODS
    elif isinstance(obj, bytes):
        tbl = BYTES_METHODS
    elif isinstance(obj, (int, float)) or is_sym_int(obj) or is_sym_real(obj):
        tbl = NUM_METHODS
    elif isinstance(obj, GenVal):
        tbl = {}
    else:
        from . import arrays
        if isinstance(obj, arrays.SArr):
            tbl = {'append': lambda I, a, ln, v: arrays.append(I, a, v, ln),
                   'extend': lambda I, a, ln, v: arrays.extend(I, a, v, ln),
                   'index': lambda I, a, ln, v, start=0: arrays.index(I, a, v, start, ln)}
    if tbl is not None and name in tbl:
        f = tbl[name]
        return Builtin(f'{type(obj).__name__}.{name}', lambda *a, **k: f(I, obj, lineno, *a, **k))
    ext = getattr(I, 'extra_methods', None)
    if ext is not None:
        r = ext(I, obj, name, lineno)
        if r is not None:
            return r
    raise Unsupported(f'method {name!r} of {type(obj).__name__} at line {lineno}')


def _concrete_str_method(name):
    def m(I, s, lineno, *args, **kwargs):
        if isinstance(s, str) and all(is_concrete(a) for a in args) and all(is_concrete(a) for a in kwargs.values()):
            try:
                r = getattr(s, name)(*args, **kwargs)
            except ValueError:
                I.raise_('ValueError', lineno=lineno)
            except (TypeError,):
                I.raise_('TypeError', lineno=lineno)
            if isinstance(r, list):
                return PList(r, fresh=True)
            return r
        sym = SYM_STR_METHODS.get(name)
        if sym is None:
            ext = getattr(I, 'extra_methods', None)
            if ext is not None:
                r = ext(I, s, name, lineno)
                if r is not None:
                    return r.fn(*args, **kwargs)
            raise Unsupported(f'str.{name} on symbolic string')
        return sym(I, s, lineno, *args, **kwargs)
    return m


def _s_startswith(I, s, lineno, prefix, start=None):
    if start is not None:
        raise Unsupported('startswith with start')
    if isinstance(prefix, tuple):
        return z3.Or(*[z3.PrefixOf(to_z3(p), to_z3(s)) for p in prefix])
    return z3.PrefixOf(to_z3(prefix), to_z3(s))


def _s_endswith(I, s, lineno, suffix):
    if isinstance(suffix, tuple):
        return z3.Or(*[z3.SuffixOf(to_z3(p), to_z3(s)) for p in suffix])
    return z3.SuffixOf(to_z3(suffix), to_z3(s))


def _s_find(I, s, lineno, sub, start=None, end=None):
    if end is not None:
        raise Unsupported('find with end')
    zs = to_z3(s)
    st = to_z3(0 if start is None else start)
    if start is not None and not (isinstance(start, int) and start >= 0):
        st = z3.If(st < 0, z3.If(st + z3.Length(zs) < 0, 0, st + z3.Length(zs)), st)
    return z3.IndexOf(zs, to_z3(sub), st)


def _s_rfind(I, s, lineno, sub, start=None, end=None):
    """s.rfind(sub, start, end) for 0 <= start and 0 <= end: last occurrence lying wholly inside s[start:end]."""
    zs = to_z3(s)
    st = to_z3(0 if start is None else start)
    en = z3.Length(zs) if end is None else to_z3(end)
    for b in (start, end):
        if b is None or (isinstance(b, int) and b >= 0):
            continue
        if is_sym_int(b):
            # a symbolic bound must be known non-negative here (negative bounds count from the end in Python)
            I.path.oblige(f'rfind.bound_is_non_negative@{lineno}', to_z3(b) >= 0, lineno)
            continue
        raise Unsupported('rfind with a negative bound')
    en = z3.If(en > z3.Length(zs), z3.Length(zs), en)
    # Over-approximation (sound for proving postconditions): the result is -1, or the position of *an* occurrence lying
    # inside the window.  That it is the last one, and that -1 means "no occurrence", is not modelled.
    zsub = to_z3(sub)
    r = I.fresh('rfind', z3.IntSort())
    I.path.assume(z3.Or(r == -1, z3.And(r >= st, r + z3.Length(zsub) <= en, z3.SubString(zs, r, z3.Length(zsub)) == zsub)))
    I.used_summaries.add('str.rfind: some occurrence inside the window, or -1 (over-approximation)')
    return r


def _s_rstrip(I, s, lineno, chars=None):
    """s.rstrip(c) for a single concrete character c: s == r + t with t in c* and r not ending in c.  The pieces are
    recorded on the interpreter (I.rstrip_witness) so that specifications can name them."""
    if not (isinstance(chars, str) and len(chars) == 1):
        raise Unsupported('rstrip of a symbolic string needs one concrete character')
    zs = to_z3(s)
    r = I.fresh('rstrip_kept', z3.StringSort())
    t = I.fresh('rstrip_cut', z3.StringSort())
    I.path.assume(z3.And(zs == z3.Concat(r, t), z3.InRe(t, z3.Star(z3.Re(z3.StringVal(chars)))),
                         z3.Not(z3.SuffixOf(z3.StringVal(chars), r))))
    if not hasattr(I, 'rstrip_witness'):
        I.rstrip_witness = []
    I.rstrip_witness.append((zs, r, t))
    return r


def _s_strip(I, s, lineno, chars=None):
    """s.strip(chars) for a concrete non-empty set of characters: s == l + m + r with l, r in [chars]* and m neither
    starting nor ending with one of them (exact: m is determined by s).  Witnesses are recorded like rstrip's."""
    if not (isinstance(chars, str) and len(chars) >= 1):
        raise Unsupported('strip of a symbolic string needs a concrete character set')
    zs = to_z3(s)
    l = I.fresh('strip_left', z3.StringSort())
    m = I.fresh('strip_kept', z3.StringSort())
    r = I.fresh('strip_right', z3.StringSort())
    cls = z3.Star(z3.Union(*[z3.Re(z3.StringVal(c)) for c in chars]) if len(chars) > 1 else z3.Re(z3.StringVal(chars)))
    I.path.assume(z3.And(zs == z3.Concat(l, m, r), z3.InRe(l, cls), z3.InRe(r, cls),
                         *[z3.And(z3.Not(z3.PrefixOf(z3.StringVal(c), m)), z3.Not(z3.SuffixOf(z3.StringVal(c), m)))
                           for c in chars]))
    if not hasattr(I, 'strip_witness'):
        I.strip_witness = []
    I.strip_witness.append((zs, m))
    return m


def _s_index(I, s, lineno, sub, start=None, end=None):
    r = _s_find(I, s, lineno, sub, start)
    missing = r < 0
    if end is not None:
        # s.index(sub, start, end): the first occurrence from `start` must lie wholly before `end` (end >= 0 here)
        if not ((isinstance(end, int) and end >= 0) or is_sym_int(end)):
            raise Unsupported('index with a negative end')
        if is_sym_int(end):
            I.path.oblige(f'index.end_is_non_negative@{lineno}', to_z3(end) >= 0, lineno)
        missing = z3.Or(r < 0, r + z3.Length(to_z3(sub)) > to_z3(end))
    if I.path.branch(missing, f'index.notfound@{lineno}'):
        I.raise_('ValueError', 'substring not found', lineno=lineno)
    return r


def _s_casefold(I, s, lineno):
    I.used_summaries.add('str.casefold: uninterpreted, idempotent')
    return fold_fn()(to_z3(s))


def _s_lower(I, s, lineno):
    # str.lower is NOT str.casefold ('\xdf'.lower() != '\xdf'.casefold()): its own uninterpreted function, so that code
    # which uses one where the index is keyed by the other does not verify
    if isinstance(s, str):
        return s.lower()
    I.used_summaries.add('str.lower: uninterpreted (distinct from casefold)')
    return lower_fn()(to_z3(s))


_FOLD = None
_LOWER = None


def lower_fn():
    global _LOWER
    if _LOWER is None:
        _LOWER = z3.Function('str_lower', z3.StringSort(), z3.StringSort())
    return _LOWER


def fold_fn():
    global _FOLD
    if _FOLD is None:
        _FOLD = z3.Function('casefold', z3.StringSort(), z3.StringSort())
    return _FOLD


def _s_replace(I, s, lineno, old, new, count=-1):
    if count != -1:
        raise Unsupported('replace with count')
    I.used_summaries.add('str.replace(a, b) = SMT-LIB str.replace_all for non-empty a')
    return replace_all(s, old, new)


def replace_all(s, old, new):
    """SMT-LIB str.replace_all (the z3 Python API has no wrapper for it)."""
    zs, zo, zn = to_z3(s), to_z3(old), to_z3(new)
    return z3.SeqRef(z3.Z3_mk_seq_replace_all(zs.ctx_ref(), zs.as_ast(), zo.as_ast(), zn.as_ast()), zs.ctx)


def _s_join(I, s, lineno, items):
    parts = I.iterate_concrete(items) if not isinstance(items, SSeq) else None
    if parts is None:
        raise Unsupported('join over symbolic sequence')
    out = []
    for i, p in enumerate(parts):
        if i:
            out.append(s)
        if not is_stringy(p):
            I.raise_('TypeError', 'join of non-str', lineno=lineno)
        out.append(p)
    return str_concat(I, out)


def _s_len(I, s):
    return z3.Length(to_z3(s))


def _s_format(I, s, lineno, *args, **kwargs):
    if not isinstance(s, str):
        raise Unsupported('format on symbolic template')
    import string
    out = []
    auto = 0
    for lit, fld, spec, conv in string.Formatter().parse(s):
        out.append(lit)
        if fld is None:
            continue
        if fld == '':
            if auto >= len(args):
                I.raise_('IndexError', 'format index', lineno=lineno)
            v = args[auto]
            auto += 1
        elif fld.isdigit():
            if int(fld) >= len(args):
                I.raise_('IndexError', 'format index', lineno=lineno)
            v = args[int(fld)]
        else:
            if fld not in kwargs:
                I.raise_('KeyError', fld, lineno=lineno)
            v = kwargs[fld]
        out.append(format_value(I, v, spec or '', ord(conv) if conv else -1, lineno))
    return str_concat(I, out)


SYM_STR_METHODS = {
    'startswith': _s_startswith, 'endswith': _s_endswith, 'find': _s_find, 'index': _s_index,
    'casefold': _s_casefold, 'lower': _s_lower, 'replace': _s_replace, 'join': _s_join, 'format': _s_format,
    'rfind': _s_rfind, 'rstrip': _s_rstrip, 'strip': _s_strip,
}
STR_METHODS = {n: _concrete_str_method(n) for n in
               ['startswith', 'endswith', 'find', 'rfind', 'index', 'rindex', 'casefold', 'lower', 'upper',
                'replace', 'join', 'strip', 'lstrip', 'rstrip', 'split', 'rsplit', 'partition', 'rpartition',
                'isdigit', 'isnumeric', 'isalpha', 'isspace', 'encode', 'format', 'count', 'splitlines',
                'isidentifier', 'title', 'capitalize', 'zfill', 'ljust', 'rjust', 'translate', 'removeprefix',
                'removesuffix', 'isascii', 'isalnum', 'isupper', 'islower', 'expandtabs', 'center']}


def _mut(I, obj, what, lineno):
    I.effects.append(('mutate', obj, what, lineno))


def _pl_append(I, l, lineno, x):
    _mut(I, l, 'append', lineno)
    l.items.append(x)


def _pl_extend(I, l, lineno, xs):
    _mut(I, l, 'extend', lineno)
    l.items.extend(I.iterate_concrete(xs))


def _pl_pop(I, l, lineno, idx=-1):
    _mut(I, l, 'pop', lineno)
    if not isinstance(idx, int):
        raise Unsupported('pop with symbolic index')
    try:
        return l.items.pop(idx)
    except IndexError:
        I.raise_('IndexError', 'pop from empty list', lineno=lineno)


def _pl_insert(I, l, lineno, idx, x):
    _mut(I, l, 'insert', lineno)
    if not isinstance(idx, int):
        raise Unsupported('insert with symbolic index')
    l.items.insert(idx, x)


def _pl_clear(I, l, lineno):
    _mut(I, l, 'clear', lineno)
    l.items.clear()


def _pl_copy(I, l, lineno):
    return PList(l.items, fresh=True)


def _pl_index(I, l, lineno, x):
    for i, y in enumerate(l.items):
        e = equal(I, x, y, lineno)
        if e is True or (e is not False and I.path.branch(e, f'list.index@{lineno}.{i}')):
            return i
    I.raise_('ValueError', 'not in list', lineno=lineno)


def _pl_remove(I, l, lineno, x):
    i = _pl_index(I, l, lineno, x)
    _mut(I, l, 'remove', lineno)
    del l.items[i]


def _pl_reverse(I, l, lineno):
    _mut(I, l, 'reverse', lineno)
    l.items.reverse()


def _pl_count(I, l, lineno, x):
    r = 0
    for y in l.items:
        e = equal(I, x, y, lineno)
        if e is True:
            r = r + 1
        elif e is not False:
            r = r + z3.If(e, 1, 0)
    return r


def _pl_sort(I, l, lineno, key=None, reverse=False):
    if all(is_concrete(x) for x in l.items) and key is None:
        _mut(I, l, 'sort', lineno)
        l.items.sort(reverse=bool(reverse))
        return
    raise Unsupported('sort of symbolic list')


PLIST_METHODS = {'append': _pl_append, 'extend': _pl_extend, 'pop': _pl_pop, 'insert': _pl_insert,
                 'clear': _pl_clear, 'copy': _pl_copy, 'index': _pl_index, 'remove': _pl_remove,
                 'reverse': _pl_reverse, 'count': _pl_count, 'sort': _pl_sort}


def _sq_append(I, s, lineno, x):
    _mut(I, s, 'append', lineno)
    s.expr = z3.Concat(s.expr, z3.Unit(to_z3(x)))


def _sq_extend(I, s, lineno, xs):
    _mut(I, s, 'extend', lineno)
    s.expr = z3.Concat(s.expr, seq_expr(I, xs, like=s))


def _sq_copy(I, s, lineno):
    return SSeq(s.expr, s.pytype, fresh=True)


def _sq_clear(I, s, lineno):
    _mut(I, s, 'clear', lineno)
    s.expr = z3.Empty(s.expr.sort())


def _sq_pop(I, s, lineno, idx=-1):
    _mut(I, s, 'pop', lineno)
    n = z3.Length(s.expr)
    i = to_z3(norm_index(I, idx, n, lineno, 'pop'))
    v = s.expr[i]
    s.expr = z3.Concat(z3.Extract(s.expr, 0, i), z3.Extract(s.expr, i + 1, n - i - 1))
    return v


def _sq_index(I, s, lineno, x, start=None, end=None):
    if end is not None:
        raise Unsupported('index with end')
    e = s.expr
    if isinstance(x, (bytes, SSeq)):
        needle = seq_expr(I, x)
    else:
        needle = z3.Unit(to_z3(x))
    st = to_z3(0 if start is None else start)
    r = z3.IndexOf(e, needle, st)
    if I.path.branch(r < 0, f'index.notfound@{lineno}'):
        I.raise_('ValueError', 'not found', lineno=lineno)
    return r


def _sq_find(I, s, lineno, x, start=None):
    needle = seq_expr(I, x) if isinstance(x, (bytes, SSeq)) else z3.Unit(to_z3(x))
    return z3.IndexOf(s.expr, needle, to_z3(0 if start is None else start))


SSEQ_METHODS = {'append': _sq_append, 'extend': _sq_extend, 'copy': _sq_copy, 'clear': _sq_clear,
                'pop': _sq_pop, 'index': _sq_index, 'find': _sq_find}


def _ss_add(I, s, lineno, x):
    _mut(I, s, 'add', lineno)
    s.expr = z3.Store(set_expr(I, s, elem=x), to_z3(x), True)


def _ss_discard(I, s, lineno, x):
    _mut(I, s, 'discard', lineno)
    s.expr = z3.Store(set_expr(I, s, elem=x), to_z3(x), False)


def _ss_remove(I, s, lineno, x):
    e = set_expr(I, s, elem=x)
    if not I.path.branch(z3.Select(e, to_z3(x)), f'set.remove.present@{lineno}'):
        I.raise_('KeyError', x, lineno=lineno)
    _mut(I, s, 'remove', lineno)
    s.expr = z3.Store(e, to_z3(x), False)


def _ss_copy(I, s, lineno):
    return SSet(s.expr, fresh=True)


def _ss_clear(I, s, lineno):
    _mut(I, s, 'clear', lineno)
    if s.expr is not None:
        s.expr = z3.K(s.expr.sort().domain(), z3.BoolVal(False))


def _ss_update(I, s, lineno, other):
    _mut(I, s, 'update', lineno)
    if isinstance(other, SSet):
        r = set_binop(I, ast.BitOr, s, other, lineno)
        s.expr = r.expr
        return
    for x in I.iterate_concrete(other):
        s.expr = z3.Store(set_expr(I, s, elem=x), to_z3(x), True)


SSET_METHODS = {'add': _ss_add, 'discard': _ss_discard, 'remove': _ss_remove, 'copy': _ss_copy,
                'clear': _ss_clear, 'update': _ss_update}


def _pd_get(I, d, lineno, k, default=None):
    if is_key(k):
        return d.items.get(k, default)
    for kk, v in d.items.items():
        e = equal(I, k, kk, lineno)
        if e is True or (e is not False and I.path.branch(e, f'get=={kk!r}@{lineno}')):
            return v
    return default


def _pd_items(I, d, lineno):
    return PList([(k, v) for k, v in d.items.items()])


def _pd_keys(I, d, lineno):
    return PList(list(d.items.keys()))


def _pd_values(I, d, lineno):
    return PList(list(d.items.values()))


def _pd_pop(I, d, lineno, k, *default):
    if not is_key(k):
        raise Unsupported('pop symbolic key from concrete dict')
    if k in d.items:
        _mut(I, d, 'pop', lineno)
        return d.items.pop(k)
    if default:
        return default[0]
    I.raise_('KeyError', k, lineno=lineno)


def _pd_setdefault(I, d, lineno, k, default=None):
    if not is_key(k):
        raise Unsupported('setdefault symbolic key')
    if k not in d.items:
        _mut(I, d, 'setdefault', lineno)
        d.items[k] = default
    return d.items[k]


def _pd_copy(I, d, lineno):
    return PDict(d.items, fresh=True)


def _pd_clear(I, d, lineno):
    _mut(I, d, 'clear', lineno)
    d.items.clear()


def _pd_update(I, d, lineno, other=None, **kw):
    _mut(I, d, 'update', lineno)
    if isinstance(other, PDict):
        d.items.update(other.items)
    elif other is not None:
        for k, v in I.iterate_concrete(other):
            d.items[k] = v
    d.items.update(kw)


PDICT_METHODS = {'get': _pd_get, 'items': _pd_items, 'keys': _pd_keys, 'values': _pd_values, 'pop': _pd_pop,
                 'setdefault': _pd_setdefault, 'copy': _pd_copy, 'clear': _pd_clear, 'update': _pd_update}


def _sd_get(I, d, lineno, k, default=None):
    zk = to_z3(k)
    if I.path.branch(z3.Select(d.expr[0], zk), f'dict.get.has@{lineno}'):
        return z3.Select(d.expr[1], zk)
    return default


def _sd_pop(I, d, lineno, k, *default):
    zk = to_z3(k)
    dom, val = d.expr
    if I.path.branch(z3.Select(dom, zk), f'dict.pop.has@{lineno}'):
        _mut(I, d, 'pop', lineno)
        d.expr = (z3.Store(dom, zk, False), val)
        return z3.Select(val, zk)
    if default:
        return default[0]
    I.raise_('KeyError', k, lineno=lineno)


def _sd_copy(I, d, lineno):
    return SDict(d.expr, fresh=True)


def _sd_clear(I, d, lineno):
    _mut(I, d, 'clear', lineno)
    d.expr = (z3.K(d.expr[0].sort().domain(), z3.BoolVal(False)), d.expr[1])


SDICT_METHODS = {'get': _sd_get, 'pop': _sd_pop, 'copy': _sd_copy, 'clear': _sd_clear}


def _tp_index(I, t, lineno, x):
    return _pl_index(I, PList(list(t)), lineno, x)


TUPLE_METHODS = {'index': _tp_index, 'count': lambda I, t, lineno, x: _pl_count(I, PList(list(t)), lineno, x)}
PYSET_METHODS = {}
BYTES_METHODS = {
    'decode': lambda I, b, lineno, *a, **k: b.decode(*a, **k),
    'index': lambda I, b, lineno, *a: b.index(*a),
    'find': lambda I, b, lineno, *a: b.find(*a),
    'hex': lambda I, b, lineno, *a: b.hex(*a),
}
NUM_METHODS = {
    'bit_length': lambda I, n, lineno: n.bit_length() if isinstance(n, int) else _unsup('bit_length'),
    'is_integer': lambda I, n, lineno: n.is_integer() if isinstance(n, float) else _unsup('is_integer'),
}


def _unsup(what):
    raise Unsupported(what)


def module_attr(I, mod: ModuleVal, name: str):
    h = getattr(I, 'module_models', {}).get(mod.name)
    if h is not None:
        r = h(I, name)
        if r is not _MISSING:
            return r
    if mod.name == 'math':
        import math
        v = getattr(math, name)
        if isinstance(v, float):
            return v
        fn = MATH_FUNCS.get(name)
        if fn is not None:
            return Builtin(f'math.{name}', lambda *a: fn(I, *a))
    if mod.name.startswith('srctools.'):
        sub = mod.name.split('.', 1)[1]
        v = I.module_global(sub, name)
        if v is not _MISSING:
            return v
    if mod.name == 'os':
        import os as _os
        if name == 'path':
            return ModuleVal('os.path')
        if name in ('SEEK_END', 'SEEK_SET', 'SEEK_CUR', 'sep'):
            return getattr(_os, name)
    if mod.name == 'os.path':
        import os.path as _p
        if name in ('join', 'split', 'normpath', 'basename', 'dirname', 'splitext', 'relpath'):
            def pathfn(*a, _n=name):
                if all(isinstance(x, str) for x in a):
                    r = getattr(_p, _n)(*a)
                    return r
                m = getattr(I, 'path_model', None)
                if m is not None:
                    return m(I, _n, *a)
                raise Unsupported(f'os.path.{_n} on symbolic strings')
            return Builtin('os.path.' + name, pathfn)
    if mod.name == 'itertools' and name == 'count':
        return Builtin('itertools.count', lambda start=0, step=1: CountVal(start))
    if mod.name == 'sys' and name == 'intern':
        return Builtin('sys.intern', lambda s: s)       # interning does not change the value of a string
    if mod.name == 'inspect' and name == 'isgenerator':
        return Builtin('inspect.isgenerator', lambda v: isinstance(v, GenVal))
    if mod.name == 'operator':
        if name in ('eq', 'ne', 'lt', 'le', 'gt', 'ge'):
            node = {'eq': ast.Eq, 'ne': ast.NotEq, 'lt': ast.Lt, 'le': ast.LtE, 'gt': ast.Gt, 'ge': ast.GtE}[name]()
            return Builtin(name, lambda a, b: compare(I, node, a, b))
        if name in ('add', 'sub', 'mul', 'truediv', 'floordiv', 'mod'):
            node = {'add': ast.Add, 'sub': ast.Sub, 'mul': ast.Mult, 'truediv': ast.Div, 'floordiv': ast.FloorDiv,
                    'mod': ast.Mod}[name]()
            return Builtin(name, lambda a, b: binop(I, node, a, b))
    raise Unsupported(f'module attribute {mod.name}.{name}')


def _math_conc(name):
    import math

    def f(I, *args):
        if all(isinstance(a, (int, float)) for a in args):
            return getattr(math, name)(*args)
        m = getattr(I, 'math_model', None)
        if m is not None:
            return m(I, name, *args)
        raise Unsupported(f'math.{name} on symbolic value')
    return f


MATH_FUNCS = {n: _math_conc(n) for n in ['sin', 'cos', 'tan', 'atan2', 'sqrt', 'radians', 'degrees', 'floor',
                                          'ceil', 'hypot', 'isclose', 'asin', 'acos', 'atan', 'fabs', 'copysign',
                                          'isnan', 'isinf', 'isfinite', 'fmod', 'log', 'log2', 'exp', 'trunc']}


# ---------------------------------------------------------------------------------------------------------------
# builtin functions

def make_builtins(I) -> dict:
    B: dict = {}

    def reg(name):
        def deco(f):
            B[name] = Builtin(name, f)
            return f
        return deco

    @reg('len')
    def _len(x):
        if isinstance(x, (str, bytes, tuple, list, dict, set, frozenset, range)):
            return len(x)
        if isinstance(x, PList):
            if x.builder:
                raise Unsupported('len() of a list abstracted as a string builder')
            return len(x.items)
        if isinstance(x, PDict):
            return len(x.items)
        if isinstance(x, SSeq):
            return z3.Length(x.expr)
        if is_sym_str(x) or is_sym_seq(x):
            return z3.Length(x)
        from . import arrays
        if isinstance(x, arrays.SArr):
            return x.length
        if isinstance(x, arrays.View):
            return x.count
        if isinstance(x, GenVal):
            I.raise_('TypeError', 'len of generator')
        if isinstance(x, Obj):
            if isinstance(x.fields.get('__len__'), Builtin):      # native model object
                return x.fields['__len__'].fn()
            return I.call_dunder(x, '__len__', [], 0)
        if isinstance(x, (SSet, SDict)):
            card = getattr(I, 'card_model', None)
            if card is not None:
                return card(I, x)
            raise Unsupported('len of symbolic set/dict (no cardinality model)')
        raise Unsupported(f'len of {type(x).__name__}')

    @reg('range')
    def _range(*a):
        if len(a) == 1:
            return RangeVal(0, a[0], 1)
        if len(a) == 2:
            return RangeVal(a[0], a[1], 1)
        return RangeVal(a[0], a[1], a[2])

    @reg('enumerate')
    def _enumerate(x, start=0):
        return EnumerateVal(x, start)

    @reg('zip')
    def _zip(*parts, strict=False):
        return ZipVal(list(parts))

    @reg('isinstance')
    def _isinstance(v, cls):
        return isinstance_model(I, v, cls)

    @reg('issubclass')
    def _issubclass(c, parents):
        if not isinstance(c, ClassVal):
            raise Unsupported('issubclass() of a non-class value')
        ps = parents if isinstance(parents, tuple) else (parents,)
        if not all(isinstance(p, (ClassVal, Builtin)) for p in ps):
            raise Unsupported('issubclass() against a non-class value')
        return any(I.is_subclass(c.name, p.name) for p in ps)

    @reg('int')
    def _int(x=0, base=10):
        if is_concrete(x):
            try:
                return int(x) if base == 10 or not isinstance(x, str) else int(x, base)
            except ValueError:
                I.raise_('ValueError', 'invalid literal for int()')
            except TypeError:
                I.raise_('TypeError')
        if is_sym_int(x):
            return x
        if is_sym_bool(x):
            return z3.If(x, 1, 0)
        if is_sym_real(x):
            I.used_summaries.add('int(float) truncates toward zero')
            return z3.If(x >= 0, z3.ToInt(x), -z3.ToInt(-x))
        if is_sym_bv(x):
            return x
        m = getattr(I, 'int_of_str_model', None)
        if is_sym_str(x) and m is not None:
            return m(I, x)
        raise Unsupported('int() of symbolic non-int')

    @reg('float')
    def _float(x=0.0):
        if is_concrete(x):
            try:
                return float(x)
            except ValueError:
                I.raise_('ValueError', 'invalid literal for float()')
        if is_sym_real(x):
            return x
        if is_sym_int(x):
            return z3.ToReal(x)
        m = getattr(I, 'float_of_str_model', None)
        if is_sym_str(x) and m is not None:
            return m(I, x)
        raise Unsupported('float() of symbolic value')

    @reg('bool')
    def _bool(x=False):
        return I.truth(x)

    @reg('str')
    def _str(x=''):
        return to_str(I, x)

    @reg('repr')
    def _repr(x):
        return call_builtin_repr(I, x)

    @reg('abs')
    def _abs(x):
        if is_concrete(x):
            return abs(x)
        if isinstance(x, Obj):
            return I.call_dunder(x, '__abs__', [], 0)
        return z3.If(x >= 0, x, -x)

    @reg('min')
    def _min(*a, **k):
        return _minmax(I, a, k, lambda x, y: x <= y, min)

    @reg('max')
    def _max(*a, **k):
        return _minmax(I, a, k, lambda x, y: x >= y, max)

    @reg('round')
    def _round(x, nd=None):
        if is_concrete(x):
            return round(x, nd) if nd is not None else round(x)
        m = getattr(I, 'round_model', None)
        if m is not None:
            return m(I, x, nd)
        raise Unsupported('round of symbolic value')

    @reg('divmod')
    def _divmod(a, b):
        return (binop(I, ast.FloorDiv(), a, b), binop(I, ast.Mod(), a, b))

    @reg('ord')
    def _ord(c):
        if isinstance(c, str):
            return ord(c)
        return z3.StrToCode(c)

    @reg('chr')
    def _chr(n):
        if isinstance(n, int):
            return chr(n)
        return z3.StrFromCode(n)

    @reg('tuple')
    def _tuple(x=()):
        return tuple(I.iterate_concrete(x))

    @reg('list')
    def _list(x=()):
        if isinstance(x, SSeq):
            return SSeq(x.expr, 'list', fresh=True)
        pl = PList(I.iterate_concrete(x), fresh=True)
        I.allocated.append(pl)
        return pl

    @reg('set')
    def _set(x=()):
        if isinstance(x, SSet):
            return SSet(x.expr, fresh=True)
        s = SSet(None, fresh=True)
        if isinstance(x, Obj):
            raise Unsupported('set(object)')
        items = I.iterate_concrete(x)
        for it in items:
            _ss_add(I, s, 0, it)
        return s

    @reg('frozenset')
    def _frozenset(x=()):
        if isinstance(x, SSet):
            return SSet(x.expr, fresh=True)
        items = I.iterate_concrete(x)
        if all(is_concrete(i) for i in items):
            return frozenset(items)
        s = SSet(None, fresh=True)
        for it in items:
            _ss_add(I, s, 0, it)
        return s

    @reg('dict')
    def _dict(x=None, **kw):
        d = PDict(fresh=True)
        if isinstance(x, PDict):
            d.items.update(x.items)
        elif x is not None:
            for k, v in I.iterate_concrete(x):
                d.items[k] = v
        d.items.update(kw)
        return d

    @reg('memoryview')
    def _memoryview(x):
        return x

    @reg('bytes')
    def _bytes(x=b'', *a):
        if is_concrete(x):
            return bytes(x, *a)
        if is_sym_int(x) or is_sym_bv(x):
            from . import arrays
            return arrays.zeros(I, x)
        if isinstance(x, SSeq):
            return SSeq(x.expr, 'bytes', fresh=True)
        if isinstance(x, PList):
            if all(isinstance(i, int) for i in x.items):
                try:
                    return bytes(x.items)
                except ValueError:
                    I.raise_('ValueError', 'bytes must be in range(0, 256)')
            for it in x.items:
                zi = to_z3(it)
                if is_sym_bv(zi):
                    ok = z3.ULE(zi, 255)
                else:
                    ok = z3.And(zi >= 0, zi <= 255)
                if not I.path.branch(ok, 'bytes.range'):
                    I.raise_('ValueError', 'bytes must be in range(0, 256)')
            return PList(list(x.items), fresh=True, pytype='bytes')
        raise Unsupported('bytes() of symbolic value')

    @reg('bytearray')
    def _bytearray(x=b''):
        if isinstance(x, int):
            return PList([0] * x, fresh=True, pytype='bytearray')
        if isinstance(x, bytes):
            return PList(list(x), fresh=True, pytype='bytearray')
        if isinstance(x, SSeq):
            return SSeq(x.expr, 'bytearray', fresh=True)
        if isinstance(x, PList):
            return PList(list(x.items), fresh=True, pytype='bytearray')
        raise Unsupported('bytearray() of symbolic value')

    @reg('sum')
    def _sum(x, start=0):
        r = start
        for it in I.iterate_concrete(x):
            r = binop(I, ast.Add(), r, it)
        return r

    @reg('any')
    def _any(x):
        for it in I.iterate_concrete(x):
            if I.decide(it):
                return True
        return False

    @reg('all')
    def _all(x):
        for it in I.iterate_concrete(x):
            if not I.decide(it):
                return False
        return True

    @reg('sorted')
    def _sorted(x, key=None, reverse=False):
        items = I.iterate_concrete(x)
        if all(is_concrete(i) for i in items) and key is None:
            return PList(sorted(items, reverse=bool(reverse)), fresh=True)
        raise Unsupported('sorted of symbolic values')

    @reg('reversed')
    def _reversed(x):
        return PList(list(reversed(I.iterate_concrete(x))), fresh=True)

    @reg('iter')
    def _iter(x):
        if isinstance(x, Obj):
            return I.call_dunder(x, '__iter__', [], 0)
        return x

    @reg('hash')
    def _hash(x):
        raise Unsupported('hash()')

    @reg('id')
    def _id(x):
        if hasattr(x, 'oid'):
            return x.oid
        raise Unsupported('id() of value')

    @reg('getattr')
    def _getattr(o, name, *default):
        from .symexec import PyRaise
        try:
            return I.getattr(o, name)
        except PyRaise as e:
            if default and e.exc.typ == 'AttributeError':
                return default[0]
            raise

    @reg('setattr')
    def _setattr(o, name, v):
        I.setattr(o, name, v)

    @reg('hasattr')
    def _hasattr(o, name):
        from .symexec import PyRaise
        try:
            I.getattr(o, name)
            return True
        except PyRaise:
            return False

    @reg('callable')
    def _callable(o):
        return isinstance(o, (FuncVal, BoundMethod, Builtin, ClassVal, UninterpFn))

    @reg('super')
    def _super(*a):
        raise Unsupported('super() handled specially')

    @reg('intern')
    def _intern(x):
        return x

    @reg('print')
    def _print(*a, **k):
        return None

    @reg('type')
    def _type(o):
        if isinstance(o, Obj):
            return ClassVal(o.cls, o.module)
        return ClassVal(type_name(o), '')

    for exc in I.exc_parents:
        if '.' not in exc:
            B[exc] = ClassVal(exc, '')
    B['NotImplemented'] = NotImplementedVal
    B['object'] = ClassVal('object', '')
    B['Ellipsis'] = Ellipsis
    return B


def type_name(o):
    if isinstance(o, bool) or is_sym_bool(o):
        return 'bool'
    if isinstance(o, int) or is_sym_int(o) or is_sym_bv(o):
        return 'int'
    if isinstance(o, float) or is_sym_real(o):
        return 'float'
    if isinstance(o, str) or is_sym_str(o):
        return 'str'
    if isinstance(o, PList):
        return o.pytype
    if isinstance(o, SSeq):
        return o.pytype
    if isinstance(o, bytes):
        return 'bytes'
    if isinstance(o, tuple):
        return 'tuple'
    if isinstance(o, (PDict, SDict, dict)):
        return 'dict'
    if isinstance(o, (SSet, set)):
        return 'set'
    if isinstance(o, frozenset):
        return 'frozenset'
    if o is None:
        return 'NoneType'
    return type(o).__name__


def _minmax(I, a, k, better, pyfn):
    if k.get('key') is not None:
        raise Unsupported('min/max with key')
    items = list(a)
    if len(items) == 1:
        items = I.iterate_concrete(items[0])
    if not items:
        if 'default' in k:
            return k['default']
        I.raise_('ValueError', 'empty sequence')
    if all(is_concrete(i) for i in items):
        return pyfn(items)
    r = items[0]
    for it in items[1:]:
        za, zb = num_pair(r, it)
        r = z3.If(better(za, zb), za, zb)
    return r


ABSTRACT_TYPES = {
    'int': lambda v: (isinstance(v, int) and True) or is_sym_int(v) or is_sym_bv(v) or is_sym_bool(v),
    'bool': lambda v: isinstance(v, bool) or is_sym_bool(v),
    'float': lambda v: isinstance(v, float) or is_sym_real(v),
    'str': lambda v: isinstance(v, str) or is_sym_str(v),
    'bytes': lambda v: isinstance(v, bytes) or (isinstance(v, (SSeq, PList)) and v.pytype == 'bytes'),
    'bytearray': lambda v: isinstance(v, (SSeq, PList)) and v.pytype == 'bytearray',
    'list': lambda v: isinstance(v, (SSeq, PList)) and v.pytype == 'list',
    'tuple': lambda v: isinstance(v, tuple),
    'dict': lambda v: isinstance(v, (PDict, SDict, dict)),
    'set': lambda v: isinstance(v, (SSet, set)),
    'frozenset': lambda v: isinstance(v, frozenset),
    'object': lambda v: True,
}


def isinstance_model(I, v, cls):
    if isinstance(cls, tuple):
        return any(isinstance_model(I, v, c) for c in cls)
    name = cls.name if isinstance(cls, (ClassVal, Builtin)) else None
    if name is None:
        raise Unsupported(f'isinstance against {cls!r}')
    if isinstance(v, Obj):
        if name == 'object':
            return True
        return any(c == name for c, _ in I.mro(v.cls, v.module)) or _abc_match(I, v, name)
    if isinstance(v, ExcVal):
        return I.is_subclass(v.typ, name)
    chk = ABSTRACT_TYPES.get(name)
    if chk is not None:
        return bool(chk(v))
    if name in ('Iterable', 'Sequence', 'Iterator', 'Mapping', 'MutableMapping', 'Set'):
        raise Unsupported(f'isinstance(..., {name})')
    return False


def _abc_match(I, v, name):
    return False
