"""./check driver: runs the proof tier and the bounded tier of one property, writes evidence, reports violations.

Exit codes: 0 held / 1 violation (VIOLATION line printed) / 2 undecided / 3 checker crash.
"""
from __future__ import annotations

import argparse
import hashlib
import importlib
import json
import os
import random
import re
import sys
import time
import traceback
from dataclasses import dataclass, field
from typing import Any, Callable, Optional

VERIF = os.path.dirname(os.path.dirname(os.path.abspath(__file__)))


# ---------------------------------------------------------------------------------------------------------------
# known findings

@dataclass
class Known:
    kind: str      # known | fixed
    prop: str
    key: str
    text: str


def load_known() -> list[Known]:
    out = []
    p = os.path.join(VERIF, 'KNOWN_FINDINGS.txt')
    if not os.path.exists(p):
        return out
    for line in open(p, encoding='utf8'):
        line = line.strip()
        if not line or line.startswith('#'):
            continue
        m = re.match(r'(known|fixed): property=(C\d+) (\S+) (.*)', line)
        if not m:
            continue
        out.append(Known(m.group(1), m.group(2), m.group(3), m.group(4)))
    return out


# ---------------------------------------------------------------------------------------------------------------
# bounded tier

@dataclass
class Violation:
    prop: str
    check: str              # obligation or bounded-check name
    key: str                # finding signature (stable, input-specific)
    what: str
    replay: dict
    no_input: bool = False


class BoundedCtx:
    """Handed to each bounded stand-in; counts cases and collects violations."""
    def __init__(self, prop: str, name: str, tier: str, seed: int, repo: str) -> None:
        self.prop = prop
        self.name = name
        self.tier = tier
        self.seed = seed
        self.repo = repo
        self.rng = random.Random(seed)
        self.evaluations = 0
        self.nontrivial: set = set()
        self.samples: list = []
        self.violations: list[Violation] = []
        self.exhaustive = True
        self.contract_evals = 0
        self.notes: list[str] = []
        self.deadline = time.time() + (25 if tier == "quick" else 480)

    @property
    def thorough(self) -> bool:
        return self.tier == 'thorough'

    def out_of_time(self) -> bool:
        if time.time() > self.deadline:
            self.exhaustive = False
            return True
        return False

    def pmap(self, func: Callable, items: list, procs: int = 16, batch: int = 64, job_timeout: float = 4.0):
        """Evaluate func over items on a fork pool (func must be a module-level function); yields (item, result)
        in order and stops submitting new batches once the tier's time budget is used up."""
        import multiprocessing as mp
        items = list(items)
        if not items:
            return
        ctx = mp.get_context('fork')
        runaway = 0
        with ctx.Pool(min(procs, len(items)), initializer=_worker_init) as pool:
            for i in range(0, len(items), batch):
                if self.out_of_time():
                    return
                chunk = items[i:i + batch]
                packed = [(func, it, job_timeout) for it in chunk]
                for it, res in zip(chunk, pool.imap(_call_with_timeout, packed,
                                                    chunksize=max(1, min(64, len(chunk) // (procs * 2))))):
                    if isinstance(res, str) and res.startswith('TIMEOUT:'):
                        # a busy machine can make a slow job miss its budget: confirm alone, with ten times the
                        # budget, before the input is called non-terminating
                        res = _call_with_timeout((func, it, job_timeout * 10))
                    yield it, res
                    if isinstance(res, str) and res.startswith(('TIMEOUT:', 'MEMORY:')):
                        runaway += 1
                        if runaway >= 3:      # the code under test loops: three witnesses are enough
                            self.exhaustive = False
                            self.notes.append('stopped after three non-terminating inputs')
                            pool.terminate()
                            return

    def case(self, desc: Any, nontrivial: bool = True) -> None:
        self.evaluations += 1
        if nontrivial:
            h = hashlib.sha1(repr(desc).encode('utf8', 'replace')).digest()[:8]
            self.nontrivial.add(h)
        if len(self.samples) < 3 or (self.evaluations in (10, 100, 1000) and len(self.samples) < 6):
            self.samples.append(_short(desc))

    def violation(self, key: str, what: str, input_: Any, check: str = '') -> None:
        if len(self.violations) >= 50:
            return
        self.violations.append(Violation(self.prop, check or self.name, key, what,
                                         {'check': self.name, 'input': input_}))


class JobTimeout(BaseException):     # not an Exception: harness code that catches Exception must not swallow it
    pass


def _alarm(signum, frame):
    raise JobTimeout()


def _call_with_timeout(packed):
    """Run func(item) in a pool worker under a wall-clock limit (the real code under test may loop forever)."""
    import signal
    func, item, seconds = packed
    signal.signal(signal.SIGALRM, _alarm)
    signal.setitimer(signal.ITIMER_REAL, seconds)
    try:
        return func(item)
    except JobTimeout:
        return f'TIMEOUT: the real code did not finish within {seconds} s on this input (non-termination)'
    except MemoryError:
        return 'MEMORY: the real code exhausted the worker memory limit (6 GiB above its start) on this input (unbounded allocation)'
    finally:
        signal.setitimer(signal.ITIMER_REAL, 0)


def _isolated_replay(replay_fn, model, name, cache, seconds: float = 30.0):
    """Run a sidecar's native replay in a forked child: the changed code may loop or allocate without bound on the
    witness (a model can ask for a 2**60-byte buffer), which must not take the checker down.  Wall-clock limit, a memory
    cap of 6 GiB above the current size, result passed back as JSON.  Replays whose function ignores the model
    (one shared native confirmation per run) are cached in the parent."""
    import multiprocessing as mp
    key = (id(replay_fn), json.dumps(model, sort_keys=True, default=repr) if not getattr(replay_fn, '__name__', '') == '_witness' else '')
    if key in cache:
        return cache[key]
    # total budget per run: a changed library can make every replay slow; the verdicts do not depend on the replays
    spent = cache.setdefault('__spent__', [0.0])
    if spent[0] > 150.0:
        return {'failed': False, 'error': 'native replay skipped: the replay budget of this run (150 s) is used up'}
    t_start = time.time()
    ctx = mp.get_context('fork')
    rd, wr = ctx.Pipe(duplex=False)

    def child():
        _worker_init()
        try:
            res = replay_fn(model, name)
        except MemoryError:
            res = {'failed': False, 'error': 'MemoryError while replaying the witness natively'}
        except BaseException as e:      # noqa: B902
            res = {'failed': False, 'error': f'{type(e).__name__}: {e}'}
        try:
            wr.send(json.dumps(res, default=repr))
        finally:
            wr.close()
            os._exit(0)
    proc = ctx.Process(target=child)
    proc.start()
    wr.close()
    out = None
    if rd.poll(seconds):
        try:
            out = json.loads(rd.recv())
        except (EOFError, ValueError):
            out = None
    if out is None:
        out = {'failed': False, 'error': f'native replay did not finish within {seconds} s (or died): the real code may not '
                                         f'terminate on the witness'}
    if proc.is_alive():
        proc.kill()
    proc.join(5)
    cache[key] = out
    spent[0] += time.time() - t_start
    return out


def _cap_own_memory(extra_gib: int = 20) -> None:
    """The checker itself runs code under test natively (minimising a failing history, cross-checks): a changed library
    that allocates without bound must end this process with MemoryError (exit 3, a crash - never a verdict) instead of
    exhausting the machine.  Pool workers inherit the cap and set their own tighter one."""
    import resource
    try:
        with open('/proc/self/statm') as f:
            current = int(f.read().split()[0]) * resource.getpagesize()
        soft, hard = resource.getrlimit(resource.RLIMIT_AS)
        want = current + (extra_gib << 30)
        if hard != resource.RLIM_INFINITY:
            want = min(want, hard)
        if soft == resource.RLIM_INFINITY or soft > want:
            resource.setrlimit(resource.RLIMIT_AS, (want, hard))
    except (OSError, ValueError):
        pass


def _worker_init():
    """Cap what a runaway job can allocate: 6 GiB on top of what the (forked) worker already maps."""
    import resource
    try:
        with open('/proc/self/statm') as f:
            current = int(f.read().split()[0]) * resource.getpagesize()
    except (OSError, ValueError):
        current = 8 << 30
    try:
        resource.setrlimit(resource.RLIMIT_AS, (current + (6 << 30), current + (6 << 30)))
    except (ValueError, OSError):
        pass


def minimise(seq: list, fails: Callable[[list], Any]) -> list:
    """ddmin-style reduction of a failing operation sequence to a 1-minimal one (used to key findings by their
    minimal failing history, so that one root cause has one signature)."""
    seq = list(seq)
    changed = True
    while changed and len(seq) > 1:
        changed = False
        for i in range(len(seq)):
            cand = seq[:i] + seq[i + 1:]
            try:
                bad = fails(cand)
            except Exception:
                bad = None
            if bad:
                seq = cand
                changed = True
                break
    return seq


def _short(x: Any, n: int = 300) -> Any:
    s = x if isinstance(x, str) else repr(x)
    return s if len(s) <= n else s[:n] + '...'


def bounded(name: str, bound: str, rule: str = ''):
    def deco(fn):
        fn._bounded = dict(name=name, bound=bound, rule=rule)
        return fn
    return deco


# ---------------------------------------------------------------------------------------------------------------

def setup_paths(repo: str) -> None:
    """Make `import srctools` resolve to <repo>/src (never the installed package)."""
    src = os.path.join(repo, 'src')
    shim = os.path.join(VERIF, 'shim')
    for p in (shim, src):
        if p in sys.path:
            sys.path.remove(p)
        sys.path.insert(0, p)
    for k in list(sys.modules):
        if k == 'srctools' or k.startswith('srctools.'):
            del sys.modules[k]
    import srctools  # noqa
    if not os.path.abspath(srctools.__file__).startswith(os.path.abspath(src)):
        raise RuntimeError(f'srctools imported from {srctools.__file__}, expected {src}')


def find_module(prop: str):
    cdir = os.path.join(VERIF, 'contracts')
    for f in sorted(os.listdir(cdir)):
        if f.startswith(prop + '_') and f.endswith('.py'):
            return importlib.import_module('contracts.' + f[:-3])
    raise SystemExit(f'no contracts module for {prop}')


def norm_name(name: str) -> str:
    return re.sub(r'@\d+', '', name)


def run_property(prop: str, tier: str, seed: int, repo: str, only: Optional[str] = None) -> int:
    from . import extract, smt, vc, symexec
    t0 = time.time()
    extract.set_repo(repo)
    mod = find_module(prop)
    reg = getattr(mod, 'REG', None)
    timeout_ms = getattr(mod, 'TIMEOUT_MS', {}).get(tier, 30000 if tier == 'quick' else 120000)
    smt._pool(min(16, os.cpu_count() or 4))      # fork the solver workers before anything large is built
    reports = []
    static_results = []
    crashed = []
    undecided: list[str] = []
    violations: list[Violation] = []

    # ---- proof tier -------------------------------------------------------------------------------------
    proofs = getattr(mod, 'PROOFS', None)
    if hasattr(mod, 'proofs_for'):
        proofs = mod.proofs_for(tier)       # a module may keep its slowest lemmas for the thorough tier
    if proofs is None and reg is not None:
        proofs = list(reg.by_name.values())
    todo = []
    for c in proofs or []:
        if only and only not in c.name:
            continue
        try:
            extract.load(c.module).find(c.qualname)
        except (KeyError, OSError) as e:
            # the function under contract no longer exists: the contract cannot be checked
            undecided.append(f'{c.name}: target missing ({e})')
            continue
        todo.append(c)
    try:
        reports = vc.verify_contracts(reg, todo, timeout_ms=timeout_ms) if todo else []
    except KeyError as e:
        undecided.append(f'target missing ({e})')
        reports = []
    for rep in reports:
        for u in rep.unsupported:
            undecided.append(f'{rep.contract}: {u}')
    for fn in getattr(mod, 'STATIC', []):
        if only and only not in fn.__name__:
            continue
        try:
            static_results.extend(fn(repo))
        except symexec.Unsupported as u:
            undecided.append(f'{fn.__name__}: {u}')
        except KeyError as e:
            undecided.append(f'{fn.__name__}: target missing ({e})')

    all_results = [(rep, r) for rep in reports for r in rep.results] + [(None, r) for r in static_results]
    n_ob = sum(1 for _, r in all_results if r.kind == 'assert')
    n_dis = sum(1 for _, r in all_results if r.kind == 'assert' and r.status == 'proved')
    n_cover = sum(1 for _, r in all_results if r.kind == 'cover')
    n_covered = sum(1 for _, r in all_results if r.kind == 'cover' and r.status == 'covered')

    setup_paths(repo)
    replay_cache: dict = {}
    inconclusive_covers: list[str] = []
    for rep, r in all_results:
        if r.status in ('proved', 'covered'):
            continue
        if r.status == 'uncovered':
            undecided.append(f'{r.name}: vacuous (precondition / loop body unreachable)')
            continue
        if r.status == 'unknown' and r.kind == 'cover':
            # a reachability cover under quantified hypotheses: solvers rarely build models there.  A contradictory
            # precondition shows up as `unsat` (reported above as vacuous); `unknown` is recorded, not an alarm.
            inconclusive_covers.append(r.name)
            continue
        if r.status == 'unknown':
            undecided.append(f'{r.name}: solver answered unknown ({r.reason})')
            continue
        # refuted: try native replay
        c = reg.by_name.get(rep.contract) if (rep is not None and reg is not None) else None
        replay_fn = getattr(c, 'replay_fn', None) if c else getattr(r, 'replay_fn', None)
        native = None
        if replay_fn is not None:
            native = _isolated_replay(replay_fn, r.model, norm_name(r.name), replay_cache)
        failed = bool(native and native.get('failed'))
        key = 'obligation=' + norm_name(r.name)
        violations.append(Violation(prop, r.name, key,
                                    f'obligation {r.name} refuted at line {r.lineno} {r.note}',
                                    {'obligation': r.name, 'function': rep.target if rep else '',
                                     'source_sha1': rep.sha1 if rep else '', 'lineno': r.lineno,
                                     'solver': r.backend, 'solver_output': {'status': 'sat', 'model': r.model},
                                     'native_observation': native, 'repo_path': repo},
                                    no_input=not failed))

    # ---- lock file ------------------------------------------------------------------------------------------
    lock_path = os.path.join(VERIF, 'obligations.lock.json')
    lock = json.load(open(lock_path)) if os.path.exists(lock_path) else {}
    present = {norm_name(r.name) for _, r in all_results}
    if not only:
        for name in lock.get(prop, []):
            if name not in present:
                undecided.append(f'{name}: obligation listed in obligations.lock.json was not generated')

    # ---- bounded tier ------------------------------------------------------------------------------------------
    bounded_reports = []
    for fn in getattr(mod, 'BOUNDED', []):
        meta = fn._bounded
        if only and only not in meta['name']:
            continue
        ctx = BoundedCtx(prop, meta['name'], tier, seed, repo)
        tb = time.time()
        try:
            fn(ctx)
        except Exception:
            crashed.append(f"{meta['name']}: {traceback.format_exc()}")
        bounded_reports.append(dict(name=meta['name'], bound=meta['bound'], rule=meta['rule'],
                                    evaluations=ctx.evaluations, distinct_nontrivial=len(ctx.nontrivial),
                                    exhaustive=ctx.exhaustive, samples=ctx.samples, wall_s=round(time.time() - tb, 2),
                                    violations=len(ctx.violations), notes=ctx.notes,
                                    contract_evaluations=ctx.contract_evals))
        violations.extend(ctx.violations)

    # ---- report --------------------------------------------------------------------------------------------------
    known = [k for k in load_known() if k.prop == prop]
    known_keys = {k.key: k for k in known if k.kind == 'known'}
    new_violations = []
    printed_known = set()
    for v in violations:
        if v.key in known_keys:
            if v.key not in printed_known:
                printed_known.add(v.key)
                print(f'KNOWN-FINDING: property={prop} {v.key} {known_keys[v.key].text}')
            continue
        new_violations.append(v)
    scratch = os.path.abspath(repo) != '/repo'
    rdir = os.path.join(VERIF, 'replays', prop) if not scratch else os.path.join(repo, 'verif_replays', prop)
    seen_keys = set()
    for v in new_violations:
        if v.key in seen_keys:
            continue
        seen_keys.add(v.key)
        os.makedirs(rdir, exist_ok=True)
        fname = re.sub(r'[^A-Za-z0-9_.=-]+', '_', v.key)[:120] + '.json'
        path = os.path.join(rdir, fname)
        payload = dict(v.replay)
        payload.update(property=prop, key=v.key, what=v.what)
        payload.setdefault('check', v.check)
        with open(path, 'w') as f:
            json.dump(payload, f, indent=1, default=repr)
        suffix = ' no-failing-input-found' if v.no_input else ''
        print(f'  {v.what}'[:400])
        print(f'VIOLATION property={prop} replay={path}{suffix}')

    level = getattr(mod, 'LEVEL', 'other')
    functions = [dict(contract=rep.contract, target=rep.target, file=os.path.relpath(rep.file, repo),
                      lines=list(rep.span), sha1=rep.sha1, paths=rep.paths, wall_s=round(rep.wall_s, 2),
                      inlined=rep.inlined) for rep in reports]
    ob_list = [dict(name=r.name, status=r.status, backend=r.backend, time_s=round(r.time_s, 3), line=r.lineno,
                    kind=r.kind, note=r.note, smt_bytes=r.smt_size) for _, r in all_results]
    summaries = sorted({s for rep in reports for s in rep.summaries})
    trusted = list(getattr(mod, 'TRUSTED', [])) + [f'library summary: {s}' for s in summaries] + \
        ['pyvc VC generator (symbolic executor + encodings, DESIGN.md 2.3)', 'z3 5.1.0 / cvc5 1.0.3']
    bev = sum(b['evaluations'] for b in bounded_reports)
    bnt = sum(b['distinct_nontrivial'] for b in bounded_reports)
    evidence = {
        'property_id': prop,
        'tier': tier,
        'seed': seed,
        'level': level,
        'coverage': {
            'obligations': n_ob,
            'discharged': n_dis,
            'vacuity_covers': n_cover,
            'vacuity_covers_satisfiable': n_covered,
            'vacuity_covers_inconclusive': sorted(set(inconclusive_covers)),
            'checker_cmd': f'./check {prop} --tier {tier}',
            'trusted_base': trusted,
            'explanation': getattr(mod, 'EXPLANATION', ''),
            'functions_under_contract': functions,
            'obligation_results': ob_list,
            'solver_time_s': round(sum(r.time_s for _, r in all_results), 2),
            'back_ends': sorted({r.backend for _, r in all_results if r.backend}),
            'bounded_standins': bounded_reports,
            'evaluations': bev,
            'distinct_nontrivial': bnt,
            'rule': '; '.join(f"{b['name']}: {b['bound']}" for b in bounded_reports),
            'samples': ([dict(obligation=o['name'], line=o['line'], status=o['status']) for o in ob_list[:4]]
                        + [s for b in bounded_reports for s in b['samples'][:2]]) or ['(none)'],
            'exhaustive': all(b['exhaustive'] for b in bounded_reports) if bounded_reports else False,
            'undecided': undecided,
            'unverified': list(getattr(mod, 'UNVERIFIED', [])),
            'known_findings_reported': sorted(printed_known),
        },
        'assumptions': list(getattr(mod, 'ASSUMPTIONS', [])) + [f'{k}: {v}' for k, v in symexec.ASSUMPTIONS.items()],
        'wall_s': round(time.time() - t0, 2),
        'violations': len(seen_keys),
    }
    if not only and not scratch:
        os.makedirs(os.path.join(VERIF, 'evidence'), exist_ok=True)
        with open(os.path.join(VERIF, 'evidence', f'{prop}.json'), 'w') as f:
            json.dump(evidence, f, indent=1, default=repr)
    print(f'{prop} [{tier}] obligations {n_dis}/{n_ob} discharged, covers {n_covered}/{n_cover}, '
          f'bounded evaluations {bev} ({bnt} distinct non-trivial), violations {len(seen_keys)}, '
          f'undecided {len(undecided)}, {evidence["wall_s"]}s')
    for u in undecided[:20]:
        print('  UNDECIDED', u[:300])
    for cmsg in crashed:
        print('  CRASH', cmsg[:2000])
    if seen_keys:
        return 1
    if crashed:
        return 3
    if undecided or (n_ob == 0 and not bounded_reports):
        return 2
    return 0


def write_lock(props: list[str], repo: str) -> None:
    """Record the names of all obligations that discharge on the reference tree (maintainer action, not a check)."""
    from . import extract, vc
    extract.set_repo(repo)
    lock_path = os.path.join(VERIF, 'obligations.lock.json')
    lock = json.load(open(lock_path)) if os.path.exists(lock_path) else {}
    for prop in props:
        mod = find_module(prop)
        reg = getattr(mod, 'REG', None)
        names = set()
        proofs = getattr(mod, 'PROOFS', None)
        if hasattr(mod, 'proofs_for'):
            proofs = mod.proofs_for('quick')
        if proofs is None and reg is not None:
            proofs = list(reg.by_name.values())
        for c in proofs or []:
            rep = vc.verify_contract(reg, c)
            names |= {norm_name(r.name) for r in rep.results if r.status in ('proved', 'covered')}
        for fn in getattr(mod, 'STATIC', []):
            names |= {norm_name(r.name) for r in fn(repo) if r.status in ('proved', 'covered')}
        lock[prop] = sorted(names)
    with open(lock_path, 'w') as f:
        json.dump(lock, f, indent=1, sort_keys=True)


def selftest(prop: str, only: str = '') -> int:
    """Apply each catalogued mutation of the property's sidecar to a scratch copy of /repo/src and run the check
    against it: a breaking mutation must give exit 1 naming the expected obligation/check, a harmless one exit 0."""
    import shutil
    import subprocess
    import tempfile
    mod = find_module(prop)
    muts = [(m, True) for m in getattr(mod, 'MUTATIONS', [])] + [(m, False) for m in getattr(mod, 'HARMLESS', [])]
    bad = 0
    for m, breaking in muts:
        if only and only not in m['name']:
            continue
        d = tempfile.mkdtemp(prefix=f'selftest_{prop}_')
        try:
            shutil.copytree('/repo/src', os.path.join(d, 'src'), ignore=shutil.ignore_patterns('__pycache__'))
            if os.path.isdir('/repo/tests'):
                os.symlink('/repo/tests', os.path.join(d, 'tests'))
            path = os.path.join(d, 'src', 'srctools', m['file'])
            text = open(path, encoding='utf8').read()
            if text.count(m['old']) != 1:
                print(f'SELFTEST {prop} {m["name"]}: pattern occurs {text.count(m["old"])} times -- catalogue stale')
                bad += 1
                continue
            open(path, 'w', encoding='utf8').write(text.replace(m['old'], m['new']))
            r = subprocess.run([sys.executable, '-m', 'pyvc.driver', prop, '--repo', d, '--tier', 'quick'],
                               cwd=VERIF, capture_output=True, text=True, timeout=1800)
            out = r.stdout
            if breaking:
                ok = r.returncode == 1 and 'VIOLATION' in out and (m.get('expect', '') in out)
            else:
                ok = r.returncode == 0 and 'VIOLATION' not in out
            print(f'SELFTEST {prop} {m["name"]}: {"ok" if ok else "UNEXPECTED"} (exit {r.returncode}, '
                  f'{"breaking" if breaking else "harmless"})')
            if not ok:
                bad += 1
                print('   ' + '\n   '.join(out.strip().splitlines()[-12:]))
        finally:
            shutil.rmtree(d, ignore_errors=True)
    return 0 if not bad else 3


def replay(prop: str, path: str, repo: str) -> int:
    from . import extract
    extract.set_repo(repo)
    setup_paths(repo)
    mod = find_module(prop)
    data = json.load(open(path))
    if 'input' in data:
        for fn in getattr(mod, 'BOUNDED', []):
            if fn._bounded['name'] == data['check']:
                rp = getattr(fn, 'replay', None) or getattr(mod, 'REPLAY', {}).get(data['check'])
                if rp is None:
                    print('no replay function for', data['check'])
                    return 2
                res = rp(data['input'])
                print(json.dumps(res, default=repr)[:2000])
                if res.get('failed'):
                    print(f'VIOLATION property={prop} replay={path}')
                    return 1
                return 0
        print('unknown bounded check', data.get('check'))
        return 2
    # obligation replay: re-run the proof tier for that contract
    return run_property(prop, 'quick', 0, repo, only=data.get('function', '').split(':')[-1] or None)


def main(argv=None) -> int:
    ap = argparse.ArgumentParser()
    ap.add_argument('prop')
    ap.add_argument('--tier', default=os.environ.get('VERIF_TIER', 'quick'), choices=['quick', 'thorough'])
    ap.add_argument('--repo', default=os.environ.get('VERIF_REPO', '/repo'))
    ap.add_argument('--replay')
    ap.add_argument('--only')
    ap.add_argument('--lock', action='store_true')
    ap.add_argument('--selftest', action='store_true')
    args = ap.parse_args(argv)
    seed = int(os.environ.get('VERIF_SEED', '0') or 0)
    sys.path.insert(0, VERIF)
    _cap_own_memory()
    try:
        if args.lock:
            props = [args.prop] if args.prop != 'all' else sorted({f[:3] for f in os.listdir(os.path.join(VERIF, 'contracts')) if re.match(r'C\d\d_', f)})
            write_lock(props, args.repo)
            return 0
        if args.selftest:
            return selftest(args.prop, args.only or "")
        if args.replay:
            return replay(args.prop, args.replay, args.repo)
        return run_property(args.prop, args.tier, seed, args.repo, args.only)
    except SystemExit:
        raise
    except Exception:
        traceback.print_exc()
        return 3


if __name__ == '__main__':
    sys.exit(main())
