"""Contracts, the registry that makes calls modular, the harness used by sidecars and the verification driver."""
from __future__ import annotations

import ast
import os
import sys
import inspect
import textwrap
import time
from dataclasses import dataclass, field
from typing import Any, Callable, Optional

import z3

from . import extract, smt
from .symexec import _Break as _BreakExc, _Continue as _ContinueExc
from .symexec import (Box, Builtin, ClassVal, Env, ExcVal, FuncVal, Interp, Obj, PDict, PList, Path, PathEnd,
                      PyRaise, SDict, SSeq, SSet, UninterpFn, Unsupported, _MISSING, _Return, to_z3, is_z3)


class SpecFn:
    """A spec clause: a Python def in a sidecar, interpreted symbolically (spec mode)."""
    def __init__(self, fn: Callable) -> None:
        self.fn = fn
        self.name = fn.__name__
        src = textwrap.dedent(inspect.getsource(fn))
        tree = ast.parse(src)
        node = tree.body[0]
        assert isinstance(node, ast.FunctionDef)
        node.decorator_list = []
        self.node = node
        self.params = [a.arg for a in node.args.args]
        self.globals = fn.__globals__
        self.file = inspect.getsourcefile(fn) or ''
        self.line = fn.__code__.co_firstlineno

    def call(self, I: Interp, values: dict, old_view: Optional[dict] = None) -> Any:
        env = spec_env(I, self.globals)
        inner = Env(env, '@spec')
        for p in self.params:
            if p not in values:
                raise Unsupported(f'spec {self.name}: no value for parameter {p!r}')
            inner.vars[p] = values[p]
        if old_view is not None:
            inner.vars['__old__'] = old_view
        I.spec_depth += 1
        try:
            try:
                I.exec_block(self.node.body, inner)
                r = None
            except _Return as ret:
                r = ret.value
            except PyRaise as pr:
                raise Unsupported(f'spec {self.name} raised {pr.exc.typ} at its line {pr.exc.lineno}')
        finally:
            I.spec_depth -= 1
        return r


_spec_cache: dict = {}


def spec_env(I: Interp, g: dict) -> Env:
    """Sidecar module globals as an interpreter environment: defs become interpretable functions."""
    env = Env(None, '@spec')
    for k, v in g.items():
        if k.startswith('__'):
            continue
        if inspect.isfunction(v):
            if getattr(v, '_native', False):
                env.vars[k] = Builtin(k, (lambda f: lambda *a, **kw: f(I, *a, **kw))(v))
                continue
            key = (id(v))
            if key not in _spec_cache:
                try:
                    src = textwrap.dedent(inspect.getsource(v))
                    node = ast.parse(src).body[0]
                    node.decorator_list = []
                    _spec_cache[key] = node
                except (OSError, TypeError, SyntaxError):
                    _spec_cache[key] = None
            node = _spec_cache[key]
            if node is not None:
                env.vars[k] = FuncVal(node, '@spec', k, closure=env)
        elif isinstance(v, (UninterpFn, z3.SortRef, z3.ExprRef, int, str, float, bool, tuple, frozenset)) or v is None:
            env.vars[k] = v
        elif isinstance(v, (dict,)):
            env.vars[k] = PDict(v)
        elif isinstance(v, list):
            env.vars[k] = PList(v)
    return env


def native(fn):
    """Mark a sidecar helper as native: called as fn(interp, *args) instead of being interpreted."""
    fn._native = True
    return fn


@dataclass
class LoopSpec:
    invariants: list = field(default_factory=list)      # SpecFn
    decreases: Optional[SpecFn] = None
    modifies_names: tuple = ()
    idx_name: str = ''

    def values(self, I: Interp, env: Env) -> dict:
        vals = {}
        e: Optional[Env] = env
        while e is not None:
            for k, v in e.vars.items():
                vals.setdefault(k, v)
            e = e.parent
        if self.idx_name and self.idx_name in vals:
            vals['idx'] = vals[self.idx_name]
        for k, v in getattr(I, 'ghost', {}).items():
            vals.setdefault(k, v)
        return vals

    def eval_invariants(self, I, env, old_view):
        vals = self.values(I, env)
        out = []
        for inv in self.invariants:
            out.append((inv.name, to_z3(I.truth(inv.call(I, vals, old_view)))))
        return out

    def eval_decreases(self, I, env, old_view):
        if self.decreases is None:
            return None
        return to_z3(self.decreases.call(I, self.values(I, env), old_view))


class Contract:
    def __init__(self, target: str, prop: str, name: str = '', inline: tuple = (), modular: bool = True,
                 note: str = '') -> None:
        self.target = target
        self.module, self.qualname = target.split(':')
        self.prop = prop
        self.name = name or self.qualname
        self.inline = set(inline)
        self.modular = modular
        self.note = note
        self.setups: list = []           # (label, fn)
        self.requires_: list = []
        self.ensures_: list = []
        self.raises_: dict = {}          # exc type -> list of SpecFn that must hold when raised (may be empty)
        self.loops: dict = {}
        self.modifies_fn: Optional[Callable] = None
        self.result_fn: Optional[Callable] = None
        self.replay_fn: Optional[Callable] = None
        self.samples_fn: Optional[Callable] = None
        self.trusted = False
        self.frame_check = True
        self.overrides: dict = {}
        self.globals: dict = {}

    # decorators
    def setup(self, fn=None, label: str = ''):
        def deco(f):
            self.setups.append((label or f.__name__, f))
            return f
        return deco(fn) if fn is not None else deco

    def requires(self, fn):
        self.requires_.append(SpecFn(fn))
        return fn

    def ensures(self, fn):
        self.ensures_.append(SpecFn(fn))
        return fn

    def raises(self, *types):
        for t in types:
            self.raises_.setdefault(t, [])
        return self

    def on_raise(self, typ):
        def deco(fn):
            self.raises_.setdefault(typ, []).append(SpecFn(fn))
            return fn
        return deco

    def invariant(self, ordinal: int, modifies: tuple = ()):
        def deco(fn):
            ls = self.loops.setdefault(ordinal, LoopSpec())
            ls.invariants.append(SpecFn(fn))
            ls.modifies_names = tuple(set(ls.modifies_names) | set(modifies))
            return fn
        return deco

    def decreases(self, ordinal: int):
        def deco(fn):
            self.loops.setdefault(ordinal, LoopSpec()).decreases = SpecFn(fn)
            return fn
        return deco

    def modifies(self, fn):
        """Native: fn(args dict) -> list of (Obj, field) / Box that the function may change."""
        self.modifies_fn = fn
        return fn

    def result(self, fn):
        """Native: fn(harness) -> fresh symbolic result, used when this contract summarises a call."""
        self.result_fn = fn
        return fn

    def replay(self, fn):
        self.replay_fn = fn
        return fn

    def abstract_expr(self, src: str):
        """Assume a contract on one source expression (matched textually): fn(interp, env) -> abstract value."""
        def deco(fn):
            self.overrides[' '.join(src.split())] = fn
            return fn
        return deco

    def samples(self, fn):
        """Native: concrete argument tuples for the CPython cross-check."""
        self.samples_fn = fn
        return fn


class Lemma(Contract):
    """A lemma over several real code fragments executed in sequence on shared named values.

    steps: list of dicts
      {'call': 'module:qualname', 'args': [names], 'closure': {name: value}, 'result': name}
      {'body': 'module:qualname', 'loop': ordinal, 'rename': {local: name}}   -- one arbitrary iteration
    """
    def __init__(self, name: str, prop: str, steps: list, inline: tuple = ('*',), note: str = '') -> None:
        real = [st for st in steps if 'native' not in st]
        first = real[0].get('call') or real[0].get('body') or real[0].get('stmts')
        super().__init__(first, prop, name=name, inline=inline, modular=False, note=note)
        self.steps = steps

    def targets(self) -> list[str]:
        return [st.get('call') or st.get('body') or st.get('stmts') for st in self.steps if 'native' not in st]


class Harness:
    """Helper handed to `setup` functions: creates symbolic inputs with stable names."""
    def __init__(self, I: Interp) -> None:
        self.I = I
        self.symbols: dict[str, Any] = {}
        self.ghost: dict[str, Any] = {}

    def _reg(self, name, v):
        self.symbols[name] = v
        return v

    def cover_hint(self, expr) -> None:
        """A candidate witness for the reachability covers of this harness (used only there: a cover is also tried
        with the hints conjoined, which can only make it harder to satisfy - sound for 'satisfiable' verdicts)."""
        self.I.path.cover_hints.append(expr)

    def int(self, name): return self._reg(name, z3.Int(name))
    def bool(self, name): return self._reg(name, z3.Bool(name))
    def real(self, name): return self._reg(name, z3.Real(name))
    def str(self, name): return self._reg(name, z3.String(name))
    def bv(self, name, width=64): return self._reg(name, z3.BitVec(name, width))

    def char(self, name):
        c = self.str(name)
        self.I.path.assume(z3.Length(c) == 1)
        return c

    def int_set(self, name):
        return SSet(self._reg(name, z3.Array(name, z3.IntSort(), z3.BoolSort())))

    def set_of(self, name, sort):
        return SSet(self._reg(name, z3.Array(name, sort, z3.BoolSort())))

    def dict_of(self, name, ksort, vsort):
        dom = self._reg(name + '.dom', z3.Array(name + '.dom', ksort, z3.BoolSort()))
        val = self._reg(name + '.val', z3.Array(name + '.val', ksort, vsort))
        return SDict((dom, val))

    def seq(self, name, elem_sort=None, pytype='list'):
        sort = z3.SeqSort(elem_sort if elem_sort is not None else z3.IntSort())
        return SSeq(self._reg(name, z3.Const(name, sort)), pytype)

    def bytes(self, name, pytype='bytes'):
        s = self.seq(name, z3.IntSort(), pytype)
        i = z3.Int(name + '!i')
        self.I.path.assume(z3.ForAll([i], z3.Implies(z3.And(i >= 0, i < z3.Length(s.expr)),
                                                     z3.And(s.expr[i] >= 0, s.expr[i] <= 255))))
        return s

    def arr(self, name, length, pytype='array', ints=False):
        """A byte buffer (array('B') / bytearray / memoryview) of the given (symbolic) length; elements are
        64-bit vectors (for bit manipulation) or, with ints=True, mathematical integers in 0..255."""
        from .arrays import SArr, BV
        a = self._reg(name, z3.Array(name, z3.IntSort(), z3.IntSort() if ints else BV))
        return SArr(a, to_z3(length), pytype)

    def list_arr(self, name, length, elem_sort=None):
        """A Python list of symbolic length as (array, length): better suited to quantified invariants than Seq."""
        from .arrays import SArr
        a = self._reg(name, z3.Array(name, z3.IntSort(), elem_sort if elem_sort is not None else z3.IntSort()))
        return SArr(a, to_z3(length), 'list')

    def byte(self, name):
        v = self.bv(name)
        self.I.path.assume(z3.ULE(v, 255))
        return v

    def obj(self, cls: str, module: str, **fields) -> Obj:
        return Obj(cls, fields, module=module)

    def assume(self, cond):
        self.I.path.assume(to_z3(cond))

    def fresh(self, base, sort):
        return self.I.fresh(base, sort)


class Registry:
    def __init__(self) -> None:
        self.contracts: dict[str, Contract] = {}
        self.by_name: dict[str, Contract] = {}
        self.inline_ok: set[str] = set()
        self.constructors: dict = {}
        self.active: Optional[Contract] = None

    def add(self, c: Contract) -> Contract:
        # several contracts may target one function (different lemmas); the first *modular* one summarises calls
        self.by_name[c.name] = c
        if c.modular and c.target not in self.contracts:
            self.contracts[c.target] = c
        return c

    def loop_spec(self, module: str, qualname: str, ordinal: int) -> Optional[LoopSpec]:
        c = self.active
        if c is not None and c.module == module and c.qualname == qualname:
            return c.loops.get(ordinal)
        c2 = self.contracts.get(f'{module}:{qualname}')
        if c2 is not None:
            return c2.loops.get(ordinal)
        return None

    def constructor_model(self, module: str, cls: str):
        return self.constructors.get(f'{module}:{cls}')

    def may_inline(self, fn: FuncVal) -> bool:
        key = f'{fn.module}:{fn.qualname}'
        if fn.module.startswith('@'):
            return True
        if self.active is not None:
            if '*' in self.active.inline or key in self.active.inline or fn.qualname in self.active.inline:
                return True
            # nested functions of the function under verification
            if fn.module == self.active.module and fn.qualname.startswith(self.active.qualname + '.'):
                return True
        return key in self.inline_ok

    def call_contract(self, I: Interp, fn: FuncVal, args, kwargs, lineno):
        key = f'{fn.module}:{fn.qualname}'
        c = self.contracts.get(key)
        if c is None or c is self.active and I.depth == 0:
            return _MISSING
        if self.active is not None and ('*' in self.active.inline or key in self.active.inline
                                        or fn.qualname in self.active.inline):
            return _MISSING
        return apply_contract(I, c, fn, args, kwargs, lineno)


def apply_contract(I: Interp, c: Contract, fn: FuncVal, args, kwargs, lineno):
    env = Env(None, fn.module)
    I.bind_args(fn.node, args, kwargs, env, lineno)
    vals = dict(env.vars)
    vals.update(getattr(I, 'ghost', {}))
    tag = f'call@{lineno}:{c.qualname}'
    for r in c.requires_:
        I.path.oblige(f'{tag}.requires.{r.name}', to_z3(I.truth(r.call(I, vals))), lineno)
    old_view = I.snapshot(list(vals.values()))
    if c.modifies_fn is not None:
        for tgt in c.modifies_fn(vals):
            if isinstance(tgt, tuple):
                o, f = tgt
                o.fields[f] = I.havoc_value(o.fields[f], f)
                I.effects.append(('setattr', o, f, lineno))
            else:
                I.havoc_value(tgt, 'callee')
                I.effects.append(('mutate', tgt, 'callee', lineno))
    # exceptional outcomes
    for typ, clauses in c.raises_.items():
        b = I.fresh(f'raises_{typ}', z3.BoolSort())
        if I.path.branch(b, f'{tag}.raises.{typ}'):
            for cl in clauses:
                I.path.assume(to_z3(I.truth(cl.call(I, vals, old_view))))
            raise PyRaise(ExcVal(typ, (), lineno))
    result = None
    if c.result_fn is not None:
        result = c.result_fn(Harness(I), vals)
    vals['result'] = result
    for e in c.ensures_:
        I.path.assume(to_z3(I.truth(e.call(I, vals, old_view))))
    I.call_log.append((c.target, lineno))
    return result


@dataclass
class FunctionReport:
    contract: str
    target: str
    prop: str
    file: str
    span: tuple
    sha1: str
    paths: int
    results: list
    unsupported: list
    inlined: list
    summaries: list
    wall_s: float
    feas_unknown: int = 0

    @property
    def ok(self) -> bool:
        return not self.unsupported and all(r.status in ('proved', 'covered') for r in self.results)


def run_paths(registry: Registry, c: Contract, label: str, setup: Callable, max_paths: int = 400):
    """Explore all paths of the target under one harness; returns (obligations, paths, unsupported, meta)."""
    mod = extract.load(c.module)
    fnode = mod.find(c.qualname)
    worklist: list = [[]]
    obligations = []
    unsupported = []
    npaths = 0
    inlined: set = set()
    summaries: set = set()
    feas_unknown = 0
    outcomes = []
    t_explore = time.time()
    budget_s = getattr(c, 'explore_budget_s', 90)
    while worklist:
        prefix = worklist.pop()
        npaths += 1
        if npaths > max_paths:
            unsupported.append(f'path limit {max_paths} exceeded')
            break
        if time.time() - t_explore > budget_s:
            # a change to the code under contract can blow the path space up; that is undecided, not a hang
            unsupported.append(f'path exploration budget of {budget_s} s exceeded after {npaths - 1} paths')
            break
        path = Path(prefix, worklist, feas_timeout_ms=getattr(c, 'feas_timeout_ms', 2000))
        I = Interp(path, registry)
        I.load_class_hierarchy(c.module)
        I.label = label
        I.expr_overrides = dict(c.overrides)
        I.global_overrides = c.globals      # the same dict: setup functions may install per-path models
        registry.active = c
        h = Harness(I)
        try:
            spec = setup(h)
            if isinstance(c, Lemma):
                run_lemma(I, c, spec, label, path)
                outcomes.append((npaths, 'lemma', list(path.trace)))
                raise _LemmaDone()
            args = spec.get('args', [])
            kwargs = spec.get('kwargs', {})
            I.ghost = dict(spec.get('ghost', {}))
            cls = c.qualname.rsplit('.', 1)[0] if '.' in c.qualname else None
            fn = FuncVal(fnode, c.module, c.qualname, cls=cls if mod.classdef(cls or '') else None)
            env = Env(None, c.module)
            I.bind_args(fnode, args, kwargs, env)
            vals = dict(env.vars)
            vals.update(I.ghost)
            for r in c.requires_:
                path.assume(to_z3(I.truth(r.call(I, vals))))
            I.entry_view = I.snapshot(list(vals.values()))
            path.cover(f'{label}.requires_satisfiable', fnode.lineno)
            try:
                result = I.call_function(fn, args, kwargs, force_inline=True)
                outcome = ('return', result)
            except PyRaise as pr:
                outcome = ('raise', pr.exc)
            if outcome[0] == 'return':
                vals['result'] = outcome[1]
                path.cover(f'{label}.return_reachable', fnode.lineno)
                for e in c.ensures_:
                    goal = to_z3(I.truth(e.call(I, vals, I.entry_view)))
                    path.oblige(f'{label}.ensures.{e.name}', goal, e.line)
                if c.modifies_fn is not None and c.frame_check:
                    frame_obligations(I, c, vals, label)
            else:
                exc = outcome[1]
                allowed = [t for t in c.raises_ if I.is_subclass(exc.typ, t)]
                if not allowed:
                    path.oblige(f'{label}.no_unexpected_exception', z3.BoolVal(False), exc.lineno,
                                note=f'{exc.typ}{exc.args!r} raised at line {exc.lineno}')
                else:
                    vals['result'] = None
                    for t in allowed:
                        for cl in c.raises_[t]:
                            goal = to_z3(I.truth(cl.call(I, vals, I.entry_view)))
                            path.oblige(f'{label}.on_raise.{t}.{cl.name}', goal, cl.line)
            outcomes.append((npaths, outcome[0], list(path.trace)))
        except (PathEnd, _LemmaDone):
            pass
        except Unsupported as u:
            unsupported.append(str(u))
        except PyRaise as pr:
            # an exception of the modelled program outside the steps that account for exceptions (typically a harness
            # that no longer fits the code, e.g. a changed signature): undecided, not a checker crash
            unsupported.append(f'{pr.exc.typ}{getattr(pr.exc, "args", ())!r} raised outside the steps under contract '
                               f'(line {getattr(pr.exc, "lineno", 0)})')
        except (TypeError, AttributeError, KeyError, IndexError, ValueError) as e:
            # a sidecar model or the interpreter itself does not fit the (changed) code: undecided, with the reason
            import traceback
            where = traceback.extract_tb(e.__traceback__)[-1]
            unsupported.append(f'harness/model error {type(e).__name__}: {e} ({os.path.basename(where.filename)}:{where.lineno})')
        finally:
            registry.active = None
        for ob in path.obligations:
            ob.path = npaths
        obligations.extend(path.obligations)
        inlined |= I.inlined
        summaries |= I.used_summaries
        feas_unknown += path.feas_unknown
    return obligations, npaths, unsupported, dict(inlined=inlined, summaries=summaries, feas_unknown=feas_unknown,
                                                  outcomes=outcomes, fnode=fnode, mod=mod)


class _LemmaDone(Exception):
    pass


def nth_loop(fnode, ordinal):
    loops = [n for n in ast.walk(fnode) if isinstance(n, (ast.While, ast.For))]
    loops.sort(key=lambda n: (n.lineno, n.col_offset))
    return loops[ordinal]


def run_lemma(I: Interp, c: 'Lemma', spec: dict, label: str, path: Path) -> None:
    vals = dict(spec.get('locals', {}))
    I.ghost = dict(vals)
    I.ghost.update(spec.get('ghost', {}))
    allv = dict(vals)
    allv.update(I.ghost)
    for r in c.requires_:
        path.assume(to_z3(I.truth(r.call(I, allv))))
    I.entry_view = I.snapshot(list(allv.values()))
    path.cover(f'{label}.requires_satisfiable', 0)
    try:
        for k, st in enumerate(c.steps):
            if st.get('unless') and vals.get(st['unless']) is not None:
                continue        # e.g. the rest of a `with` body after the body raised
            if 'native' in st:
                # a step of the environment / caller (e.g. the body of a `with` block), given by the sidecar
                st['native'](I, vals)
                continue
            target = st.get('call') or st.get('body') or st.get('stmts')
            module, qualname = target.split(':')
            mod = extract.load(module)
            fnode = mod.find(qualname)
            clo = None
            if st.get('closure'):
                clo = Env(None, module)
                for n, v in st['closure'].items():
                    clo.vars[n] = vals[v] if isinstance(v, str) and v in vals else v
            fn = FuncVal(fnode, module, qualname, closure=clo)
            if 'stmts' in st:
                # top-level statements [lo:hi] of the function body, on the shared named values
                if 'select' in st:
                    # a consecutive run of (possibly nested) statements, located in the function's AST on every run
                    block = st['select'](fnode)
                    if not block:
                        raise Unsupported(f'lemma {c.name}: fragment of {qualname} not found (code restructured)')
                else:
                    lo, hi = st['range']
                    block = fnode.body[lo:hi]
                env = Env(clo, module)
                env.vars.update({k: v for k, v in vals.items()})
                I.current_fn.append(fn)
                I.depth += 1
                try:
                    I.exec_block(block, env)
                finally:
                    I.depth -= 1
                    I.current_fn.pop()
                vals.update(env.vars)
                continue
            if 'call' in st:
                args = [vals[a] if isinstance(a, str) and a in vals else a for a in st.get('args', [])]
                res = I.call_function(fn, args, {}, fnode.lineno, force_inline=True)
                if st.get('result'):
                    vals[st['result']] = res
            else:
                loop = nth_loop(fnode, st.get('loop', 0))
                env = Env(clo, module)
                rename = st.get('rename', {})
                names = {n.id for n in ast.walk(loop) if isinstance(n, ast.Name)}
                for n in names:
                    src = rename.get(n, n)
                    if src in vals:
                        env.vars[n] = vals[src]
                I.current_fn.append(fn)
                I.depth += 1
                try:
                    if isinstance(loop, ast.For):
                        tgt = loop.target
                        tnames = [x.id for x in ast.walk(tgt) if isinstance(x, ast.Name)]
                        for tn in tnames:
                            if tn not in env.vars:
                                raise Unsupported(f'lemma {c.name}: loop variable {tn} not supplied')
                    else:
                        if not I.decide(I.eval(loop.test, env)):
                            raise PathEnd()
                    try:
                        I.exec_block(loop.body, env)
                        vals['exit_kind'] = 'normal'
                    except _Return as ret:
                        vals['exit_kind'] = 'return'
                        vals['result'] = ret.value
                    except _BreakExc:
                        vals['exit_kind'] = 'break'
                    except _ContinueExc:
                        vals['exit_kind'] = 'continue'
                finally:
                    I.depth -= 1
                    I.current_fn.pop()
                for n, v in env.vars.items():
                    vals[rename.get(n, n)] = v
    except PyRaise as pr:
        exc = pr.exc
        allowed = [t for t in c.raises_ if I.is_subclass(exc.typ, t)]
        if not allowed:
            path.oblige(f'{label}.no_unexpected_exception', z3.BoolVal(False), exc.lineno,
                        note=f'{exc.typ}{exc.args!r} raised at line {exc.lineno}')
            return
        path.cover(f'{label}.end_reachable', 0)
        allv = dict(I.ghost)
        allv.update(vals)
        allv['raised'] = exc.typ
        for t in allowed:
            for cl in c.raises_[t]:
                if any(p not in allv for p in cl.params):
                    continue
                path.oblige(f'{label}.on_raise.{t}.{cl.name}', to_z3(I.truth(cl.call(I, allv, I.entry_view))), cl.line)
        return
    path.cover(f'{label}.end_reachable', 0)
    allv = dict(I.ghost)
    allv.update(vals)
    for e in c.ensures_:
        if any(p not in allv for p in e.params):
            # a clause about a local that does not exist on this path (e.g. after an early break) is not
            # applicable here; the lock file guarantees that every clause is generated on some path
            continue
        goal = to_z3(I.truth(e.call(I, allv, I.entry_view)))
        path.oblige(f'{label}.ensures.{e.name}', goal, e.line)


def frame_obligations(I: Interp, c: Contract, vals: dict, label: str) -> None:
    """Every field of every pre-existing object that is not in `modifies` is unchanged."""
    allowed_fields = set()
    allowed_boxes = set()
    for tgt in c.modifies_fn(vals):
        if isinstance(tgt, tuple):
            allowed_fields.add((tgt[0].oid, tgt[1]))
            v = tgt[0].fields.get(tgt[1])
            if isinstance(v, Box):
                allowed_boxes.add(v.oid)
            ov = I.entry_view.get(('obj', tgt[0].oid), {}).get(tgt[1])
            if isinstance(ov, Box):
                allowed_boxes.add(ov.oid)
        else:
            allowed_boxes.add(tgt.oid)
    from .builtins_model import equal
    for key, old in I.entry_view.items():
        if isinstance(key, tuple) and key[0] == 'obj':
            obj = I.entry_view[('ref', key[1])]
            for f, ov in old.items():
                if (obj.oid, f) in allowed_fields:
                    continue
                nv = obj.fields.get(f, _MISSING)
                if nv is ov:
                    continue
                if nv is _MISSING:
                    I.path.oblige(f'{label}.frame.{obj.cls}.{f}', z3.BoolVal(False), 0, note='field deleted')
                    continue
                try:
                    I.path.oblige(f'{label}.frame.{obj.cls}.{f}', to_z3(equal(I, nv, ov)), 0)
                except Unsupported:
                    I.path.oblige(f'{label}.frame.{obj.cls}.{f}', z3.BoolVal(False), 0, note='field replaced')
        elif isinstance(key, int):
            # a Box: find current expr
            pass
    # boxes: compare current expr with snapshot
    seen = {}

    def visit(v):
        if isinstance(v, Box):
            seen[v.oid] = v
        elif isinstance(v, Obj):
            if ('o', v.oid) in seen:
                return
            seen[('o', v.oid)] = v
            for f in v.fields.values():
                visit(f)
        elif isinstance(v, (tuple, list)):
            for x in v:
                visit(x)
    for v in vals.values():
        visit(v)
    for key, old in I.entry_view.items():
        if isinstance(key, int) and key not in allowed_boxes and key in seen:
            box = seen[key]
            if box.expr is old:
                continue
            if isinstance(old, tuple):
                goal = z3.And(*[a == b for a, b in zip(box.expr, old)])
            else:
                goal = box.expr == old
            I.path.oblige(f'{label}.frame.container#{type(box).__name__}', goal, 0)


def verify_contract(registry: Registry, c: Contract, timeout_ms: int = 10000, jobs: int = 0) -> FunctionReport:
    return verify_contracts(registry, [c], timeout_ms, jobs)[0]


def verify_contracts(registry: Registry, contracts: list, timeout_ms: int = 10000, jobs: int = 0) -> list:
    """Explore the paths of every contract first, then discharge all obligations in one parallel batch."""
    global _COLLECT_CTX
    if len(contracts) >= 4:
        # path exploration is single-threaded and, for string-heavy code, dominated by feasibility queries:
        # explore the contracts in parallel worker processes; obligations come back as SMT-LIB text
        import multiprocessing as mp
        _COLLECT_CTX = (registry, contracts)
        with mp.get_context('fork').Pool(min(16, len(contracts))) as pool:
            collected = pool.map(_collect_job, range(len(contracts)), chunksize=1)
        for col in collected:
            m = extract.load(col['module'])
            col['mod'], col['fnode'] = m, m.find(col['qualname'])
    else:
        collected = [_serialise(_collect(registry, c)) for c in contracts]
    all_obs = [o for col in collected for o in col['obs']]
    if os.environ.get('PYVC_TRACE'):
        print(f'[pyvc] explored {len(contracts)} contracts: {len(all_obs)} obligations, '
              f'{sum(len(o.smt2) for o in all_obs if hasattr(o, "smt2")) >> 20} MiB of SMT-LIB', file=sys.stderr, flush=True)
    results = smt.discharge(all_obs, timeout_ms=timeout_ms, jobs=jobs)
    if os.environ.get('PYVC_TRACE'):
        print(f'[pyvc] discharged: {sum(r.status == "unknown" for r in results)} unknown', file=sys.stderr, flush=True)
    reports = []
    k = 0
    for c, col in zip(contracts, collected):
        n = len(col['obs'])
        merged = merge_results(results[k:k + n])
        k += n
        mod, fnode = col['mod'], col['fnode']
        reports.append(FunctionReport(c.name, c.target, c.prop, mod.path, mod.span(fnode), mod.sha1(fnode),
                                      col['npaths'], merged, col['unsupported'], sorted(col['inlined']),
                                      sorted(col['summaries']), col['wall'] + sum(r.time_s for r in merged),
                                      col['feas_unknown']))
    return reports


_COLLECT_CTX = None


def _collect_job(i: int) -> dict:
    registry, contracts = _COLLECT_CTX
    col = _serialise(_collect(registry, contracts[i]))
    col.pop('mod')
    col.pop('fnode')
    return col


def _serialise(col: dict) -> dict:
    """Replace z3 expressions by SMT-LIB text so that a collection can cross a process boundary."""
    col['obs'] = [smt.TextObligation(o.name, o.kind, o.lineno, o.note, o.path,
                                     smt.to_smt2(o.pc, None, negate=False) if o.kind == 'cover'
                                     else smt.to_smt2(o.pc, o.goal),
                                     smt.to_smt2(list(o.pc) + list(o.hints), o.goal)
                                     if o.kind != 'cover' and getattr(o, 'hints', None) else '') for o in col['obs']]
    col['module'], col['qualname'] = col['mod'].name, _qual(col)
    col['inlined'], col['summaries'] = sorted(col['inlined']), sorted(col['summaries'])
    return col


def _qual(col):
    return col['qualname'] if 'qualname' in col else col['_qualname']


def _collect(registry: Registry, c: Contract) -> dict:
    t0 = time.time()
    all_obs = []
    unsupported: list = []
    npaths = 0
    meta_all = dict(inlined=set(), summaries=set(), feas_unknown=0)
    mod = fnode = None
    setups = c.setups or [('default', lambda h: {'args': []})]
    for label, setup in setups:
        lbl = c.name if label in ('setup', 'default', '_', '<lambda>', 'wrapped') else f'{c.name}[{label}]'
        obs, n, unsup, meta = run_paths(registry, c, lbl, setup)
        all_obs.extend(obs)
        unsupported.extend(unsup)
        npaths += n
        meta_all['inlined'] |= meta['inlined']
        meta_all['summaries'] |= meta['summaries']
        meta_all['feas_unknown'] += meta['feas_unknown']
        mod, fnode = meta['mod'], meta['fnode']
    # vacuity guard: every harness must reach the end of the function on some path
    import z3 as _z3
    from .symexec import Obligation
    for label, _ in setups:
        lbl = c.name if label in ('setup', 'default', '_', '<lambda>', 'wrapped') else f'{c.name}[{label}]'
        ends = [o for o in all_obs if o.kind == 'cover' and o.name in (f'{lbl}.return_reachable', f'{lbl}.end_reachable')]
        if not ends and not getattr(c, 'may_not_return', False):
            all_obs.append(Obligation(f'{lbl}.return_reachable', [_z3.BoolVal(False)], _z3.BoolVal(False), 0,
                                      kind='cover'))
    return dict(obs=all_obs, mod=mod, fnode=fnode, _qualname=c.qualname, npaths=npaths, unsupported=unsupported,
                inlined=meta_all['inlined'], summaries=meta_all['summaries'], feas_unknown=meta_all['feas_unknown'],
                wall=time.time() - t0)


def merge_results(results: list) -> list:
    by_name: dict = {}
    for r in results:
        by_name.setdefault((r.name, r.kind), []).append(r)
    merged = []
    for (name, kind), rs in by_name.items():
        if kind == 'cover':
            best = next((r for r in rs if r.status == 'covered'), None) or \
                   next((r for r in rs if r.status == 'unknown'), rs[0])
            m = smt.Result(name, best.status, best.backend, sum(r.time_s for r in rs), {}, best.lineno, best.path,
                           kind='cover', note=f'{len(rs)} path(s)')
        else:
            worst = next((r for r in rs if r.status == 'refuted'), None) or \
                    next((r for r in rs if r.status == 'unknown'), None) or rs[0]
            m = smt.Result(name, worst.status, worst.backend, sum(r.time_s for r in rs), worst.model, worst.lineno,
                           worst.path, note=(worst.note + f' [{len(rs)} path instance(s)]').strip(),
                           reason=worst.reason, smt_size=max(r.smt_size for r in rs))
        merged.append(m)
    return merged
