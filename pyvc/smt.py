"""Back ends: z3 (Python API, one worker process per obligation batch) and cvc5 (CLI) on the same SMT-LIB2 text."""
from __future__ import annotations

import multiprocessing as mp
import os
import re
import subprocess
import tempfile
import time
from dataclasses import dataclass, field
from typing import Any, Optional

import z3


@dataclass
class Result:
    name: str
    status: str            # proved | refuted | unknown | covered | uncovered
    backend: str = ''
    time_s: float = 0.0
    model: dict = field(default_factory=dict)
    lineno: int = 0
    path: int = 0
    note: str = ''
    kind: str = 'assert'
    reason: str = ''
    smt_size: int = 0


@dataclass
class TextObligation:
    """An obligation whose formula is already SMT-LIB text (crosses process boundaries)."""
    name: str
    kind: str
    lineno: int
    note: str
    path: int
    smt2: str
    hint_smt2: str = ''     # the negated goal under the setup's candidate witness (see Harness.cover_hint)


def to_smt2(pc: list, goal: Any, negate: bool = True) -> str:
    s = z3.Solver()
    for c in pc:
        s.add(c)
    if negate:
        s.add(z3.Not(goal))
    return s.to_smt2()


def _decode_z3_string(s: str) -> str:
    def rep(m):
        return chr(int(m.group(1), 16))
    s = re.sub(r'\\u\{([0-9a-fA-F]+)\}', rep, s)
    s = re.sub(r'\\x([0-9a-fA-F]{2})', rep, s)
    return s


def model_to_py(m: z3.ModelRef) -> dict:
    out: dict = {}
    for d in m.decls():
        try:
            v = m[d]
            if d.arity() != 0:
                out[d.name()] = str(v)
                continue
            if z3.is_int_value(v):
                out[d.name()] = v.as_long()
            elif z3.is_true(v) or z3.is_false(v):
                out[d.name()] = z3.is_true(v)
            elif z3.is_string_value(v):
                out[d.name()] = _decode_z3_string(v.as_string())
            elif z3.is_rational_value(v):
                out[d.name()] = f'{v.numerator_as_long()}/{v.denominator_as_long()}'
            elif z3.is_bv_value(v):
                out[d.name()] = v.as_long()
            else:
                out[d.name()] = str(v)
        except Exception as e:  # pragma: no cover
            out[d.name()] = f'<{e}>'
    return out


SOLVER_MEM_MB = 3000


def _limit_child_memory():
    import resource
    try:
        resource.setrlimit(resource.RLIMIT_AS, ((SOLVER_MEM_MB + 1000) << 20, (SOLVER_MEM_MB + 1000) << 20))
    except (ValueError, OSError):
        pass


def _z3_check(smt2: str, timeout_ms: int) -> tuple[str, dict, str]:
    ctx = z3.Context()
    s = z3.Solver(ctx=ctx)
    s.set('timeout', timeout_ms)
    s.set('max_memory', SOLVER_MEM_MB)        # a goal that needs more is `unknown` (undecided), not a dead machine
    s.from_string(smt2)
    # the solver's own timeout / memory parameters are not honoured inside some string-theory loops: interrupt the
    # context from a watchdog thread as well (the worker's address-space cap is the last resort)
    import threading
    dog = threading.Timer(timeout_ms / 1000.0 + 3.0, ctx.interrupt)
    dog.daemon = True
    dog.start()
    try:
        r = s.check()
    except (z3.Z3Exception, MemoryError) as e:
        return 'unknown', {}, f'z3: {e}'
    finally:
        dog.cancel()
    if r == z3.unsat:
        return 'unsat', {}, ''
    if r == z3.sat:
        try:
            return 'sat', model_to_py(s.model()), ''
        except Exception as e:  # pragma: no cover
            return 'sat', {}, str(e)
    return 'unknown', {}, s.reason_unknown()


def _z3cli_check(smt2: str, timeout_ms: int) -> tuple[str, dict, str]:
    exe = '/usr/bin/z3'
    if not os.path.exists(exe):
        return 'unknown', {}, 'z3 cli not installed'
    with tempfile.NamedTemporaryFile('w', suffix='.smt2', delete=False) as f:
        f.write(smt2)
        fname = f.name
    try:
        p = subprocess.run([exe, f'-T:{max(1, timeout_ms // 1000)}', f'-memory:{SOLVER_MEM_MB}', fname],
                           capture_output=True, text=True, timeout=timeout_ms / 1000 + 5, preexec_fn=_limit_child_memory)
        first = (p.stdout.strip().splitlines() or [''])[0]
        if first == 'unsat':
            return 'unsat', {}, ''
        # a `sat` from the old binary is not used (no model extraction here): let the other stages answer
        return 'unknown', {}, first[:100]
    except subprocess.TimeoutExpired:
        return 'unknown', {}, 'z3 cli timeout'
    finally:
        os.unlink(fname)


def _cvc5_check(smt2: str, timeout_ms: int) -> tuple[str, dict, str]:
    exe = '/usr/bin/cvc5'
    if not os.path.exists(exe):
        return 'unknown', {}, 'cvc5 not installed'
    with tempfile.NamedTemporaryFile('w', suffix='.smt2', delete=False) as f:
        f.write('(set-logic ALL)\n')
        f.write(smt2)
        fname = f.name
    try:
        args = [exe, f'--tlimit={timeout_ms}', '--strings-exp', fname]
        p = subprocess.run(args, capture_output=True, text=True, timeout=timeout_ms / 1000 + 5, preexec_fn=_limit_child_memory)
        out = p.stdout.strip().splitlines()
        first = out[0] if out else ''
        if first in ('unsat', 'sat'):
            return first, {}, ''
        return 'unknown', {}, (p.stderr.strip() or first)[:200]
    except subprocess.TimeoutExpired:
        return 'unknown', {}, 'cvc5 timeout'
    finally:
        os.unlink(fname)


def _work(job):
    idx, smt2, timeout_ms, use_cvc5 = job[:4]
    t0 = time.time()
    # Staged: a short z3 attempt, then cvc5 (much stronger on strings/sequences), then z3 with the full budget.
    # Verdicts therefore do not depend on z3's seq solver finishing just inside its budget.
    is_cover = '(check-sat)' in smt2 and job[4] if len(job) > 4 else False
    late = len(job) > 5 and time.time() > job[5]          # the batch's wall-clock deadline has passed
    stages = [('z3', min(timeout_ms, 3000))]
    if late:
        timeout_ms, use_cvc5 = 3000, False
    if use_cvc5 and not is_cover:
        # the Debian z3 4.8.12 binary instantiates quantifiers over nested arrays far more eagerly than 5.1:
        # try it first on quantified goals
        if 'forall' in smt2:
            stages.insert(0, ('z3old', min(timeout_ms, 20000)))
        else:
            stages.append(('z3old', min(timeout_ms, 20000)))
        stages.append(('cvc5', timeout_ms))
    elif use_cvc5 and 'forall' not in smt2:
        stages.append(('cvc5', timeout_ms))      # (covers under quantifiers stay inconclusive: do not wait for them)
    if timeout_ms > 3000:
        stages.append(('z3', timeout_ms))
    st, model, reason, backend = 'unknown', {}, '', ''
    reasons = []
    for solver, budget in stages:
        try:
            if solver == 'z3':
                st, model, reason = _z3_check(smt2, budget)
                backend = 'z3-' + z3.get_version_string()
            elif solver == 'z3old':
                st, model, reason = _z3cli_check(smt2, budget)
                backend = 'z3-4.8.12(cli)'
            else:
                st, model, reason = _cvc5_check(smt2, budget)
                backend = 'cvc5-1.0.3'
        except Exception as e:  # parse errors etc.
            st, model, reason = 'unknown', {}, f'{solver} error: {e}'
        if st != 'unknown':
            break
        reasons.append(f'{solver}({budget}ms): {reason}')
    if st == 'unknown':
        reason = '; '.join(reasons)
    return idx, st, model, reason, backend, time.time() - t0


_POOL = None


def _solver_worker_init():
    """Address-space cap of a solver worker: 6 GiB above what the forked process already maps."""
    import resource
    try:
        with open('/proc/self/statm') as f:
            current = int(f.read().split()[0]) * resource.getpagesize()
        cap = current + (6 << 30)
        soft, hard = resource.getrlimit(resource.RLIMIT_AS)
        if hard != resource.RLIM_INFINITY:
            cap = min(cap, hard)
        resource.setrlimit(resource.RLIMIT_AS, (cap, hard))
    except (OSError, ValueError):
        pass


def _pool(n: int):
    """One worker pool per process, forked once (early, while the parent is still small): the jobs are SMT-LIB
    texts, so the workers need nothing from the parent's later state."""
    global _POOL
    if _POOL is None:
        import atexit
        _POOL = mp.get_context('fork').Pool(n, initializer=_solver_worker_init)
        atexit.register(_close_pool)
    return _POOL


def _close_pool():
    global _POOL
    if _POOL is not None:
        _POOL.terminate()
        _POOL = None


def discharge(obligations: list, timeout_ms: int = 10000, jobs: int = 0, use_cvc5: bool = True) -> list[Result]:
    """Check every obligation: assert -> pc => goal valid;  cover -> pc satisfiable."""
    jobs_list = []
    for i, ob in enumerate(obligations):
        if isinstance(ob, TextObligation):
            smt2 = ob.smt2
        elif ob.kind == 'cover':
            smt2 = to_smt2(ob.pc, None, negate=False)
        else:
            smt2 = to_smt2(ob.pc, ob.goal)
        # reachability covers only need one satisfiable instance per name: keep their budget small
        jobs_list.append((i, smt2, timeout_ms if ob.kind != 'cover' else min(timeout_ms, 5000), use_cvc5,
                          ob.kind == 'cover'))
    results: list[Optional[Result]] = [None] * len(obligations)
    njobs = jobs or min(16, os.cpu_count() or 4)

    def run(job_subset):
        if len(job_subset) <= 1 or njobs == 1:
            return [_work(j) for j in job_subset]
        # every job carries the wall-clock deadline of the batch: a run in which (after a change to the code under
        # contract) most goals time out in every stage must not take hours - jobs started after the deadline only get
        # the short first stage
        deadline = time.time() + max(150.0, 3.0 * timeout_ms / 1000.0)
        return _pool(njobs).map(_work, [j + (deadline,) for j in job_subset], chunksize=1)
    # a cover that also exists with a candidate witness conjoined ('hinted') waits for that one: when the witness fits,
    # the plain query (satisfiability under quantified invariants, usually a time-out) is not needed
    hinted = {(ob.name, ob.path) for ob in obligations if ob.kind == 'cover' and ob.note == 'hinted'}
    second = [j for j in jobs_list if obligations[j[0]].kind == 'cover' and obligations[j[0]].note != 'hinted'
              and (obligations[j[0]].name, obligations[j[0]].path) in hinted]
    second_ids = {j[0] for j in second}
    outs = run([j for j in jobs_list if j[0] not in second_ids])
    witnessed = {(obligations[o[0]].name, obligations[o[0]].path) for o in outs
                 if obligations[o[0]].kind == 'cover' and obligations[o[0]].note == 'hinted' and o[1] == 'sat'}
    outs += run([j for j in second if (obligations[j[0]].name, obligations[j[0]].path) not in witnessed])
    for j in second:
        if (obligations[j[0]].name, obligations[j[0]].path) in witnessed:
            outs.append((j[0], 'sat', {}, 'covered by the hinted witness of the same cover', 'witness-hint', 0.0))
    for idx, st, model, reason, backend, dt in outs:
        ob = obligations[idx]
        if ob.kind == 'cover':
            status = {'sat': 'covered', 'unsat': 'uncovered', 'unknown': 'unknown'}[st]
            if ob.note == 'hinted' and status == 'uncovered':
                status = 'unknown'          # the candidate witness does not fit: says nothing about the cover itself
        else:
            status = {'unsat': 'proved', 'sat': 'refuted', 'unknown': 'unknown'}[st]
        results[idx] = Result(ob.name, status, backend, dt, model, ob.lineno, ob.path, ob.note, ob.kind, reason,
                              len(jobs_list[idx][1]))
    # an undecided assertion whose setup gave a candidate witness: look for a counter-model *under the witness*
    # (pc and hints and not goal).  sat is a genuine counter-model of the obligation; anything else leaves it undecided.
    retry = []
    for i, ob in enumerate(obligations):
        if ob.kind == 'cover' or results[i] is None or results[i].status != 'unknown':
            continue
        if isinstance(ob, TextObligation):
            text = ob.hint_smt2
        else:
            text = to_smt2(list(ob.pc) + list(ob.hints), ob.goal) if getattr(ob, 'hints', None) else ''
        if text:
            retry.append((i, text, min(timeout_ms, 20000), use_cvc5, False))
    for idx, st, model, reason, backend, dt in (run(retry) if retry else []):
        if st == 'sat':
            ob, old = obligations[idx], results[idx]
            results[idx] = Result(ob.name, 'refuted', backend, old.time_s + dt, model, ob.lineno, ob.path,
                                  (ob.note + '; ' if ob.note else '') + 'counter-model found under the setup\'s candidate '
                                  'witness', ob.kind, '', len(retry[0][1]))
    return results  # type: ignore


def shape(name: str, good: bool, bad: bool = False, line: int = 0, note: str = '', backend: str = 'ast-scan') -> Result:
    """Result of an obligation about the *shape* of the source text.  `good`: the shape the proof needs is present;
    `bad`: a shape that is known to break the property is present.  Neither -> the code was restructured in a way this
    obligation does not recognise: that is *undecided* (status unknown), never a violation, so a harmless refactoring
    cannot raise an alarm."""
    if bad:
        return Result(name, 'refuted', backend, 0.0, {}, line, 0, note)
    if good:
        return Result(name, 'proved', backend, 0.0, {}, line, 0, note)
    return Result(name, 'unknown', backend, 0.0, {}, line, 0, note, 'assert',
                  'source shape not recognised (restructured code?) - undecided, not a violation')
