"""Symbolic execution of real Python function bodies (ast) by path replay.

The interpreter is an ordinary recursive AST interpreter over *mixed* values: concrete Python values are computed
with, z3 expressions are built.  Whenever control flow depends on a symbolic condition the interpreter asks the
`Path` oracle; the driver (`explore`) re-runs the function once per feasible decision sequence.  Obligations are
collected as (path condition, goal) pairs and discharged afterwards (smt.py).

What of Python's semantics the encoding assumes is written next to each construct and collected in
`ASSUMPTIONS` (printed into every evidence file).
"""
from __future__ import annotations

import ast
import itertools
from dataclasses import dataclass, field
from typing import Any, Callable, Optional

import z3

from . import extract

ASSUMPTIONS = {
    'int': 'Python int = mathematical integer (z3 Int); // and % use floor semantics for either sign of divisor',
    'float-as-real': 'float arithmetic treated as exact real arithmetic (z3 Real) where a contract says so',
    'bv': 'small non-negative ints under bit operations are 64-bit vectors; every +,*,<< emits a no-overflow '
          'obligation, so results coincide with unbounded Python ints',
    'str': 'str = z3 String (sequence of code points); len/index/slice/startswith/find follow CPython',
    'list-seq': 'list/bytes/bytearray values under loop invariants = z3 Seq; identity of containers is tracked by '
                'wrapper objects, element mutation through aliases of *elements* is not modelled unless elements '
                'are heap objects',
    'set': 'set = characteristic array (elem -> Bool); finiteness only through explicit ghost bounds',
    'dict': 'dict = domain array + value array; iteration order only where a contract models it',
    'objects': 'objects are records of named fields (no __dict__ tricks, no descriptors other than property/'
               'classmethod/staticmethod); two harness objects are distinct unless the harness aliases them',
    'exceptions': 'implicit IndexError/KeyError/ZeroDivisionError/AttributeError(None) are modelled as raise '
                  'outcomes; MemoryError/RecursionError/KeyboardInterrupt are not modelled',
    'calls': 'a callee with a contract contributes only its contract; helpers marked inline are executed',
}


class Unsupported(Exception):
    """Construct outside the accepted subset: the check answers 'undecided' (exit 2)."""


class PathEnd(Exception):
    """This path is finished (infeasible, or cut after a loop-preservation check)."""


class PyRaise(Exception):
    def __init__(self, exc: 'ExcVal') -> None:
        super().__init__(exc.typ)
        self.exc = exc

    def __reduce__(self):
        # Exception's default pickling re-calls __init__ with args (= the type name): keep the ExcVal instead,
        # flattened to text where its payload cannot cross a process boundary
        try:
            import pickle
            pickle.dumps(self.exc)
            return (PyRaise, (self.exc,))
        except Exception:
            return (PyRaise, (ExcVal(self.exc.typ, tuple(str(a) for a in getattr(self.exc, 'args', ()))),))


class _Return(Exception):
    def __init__(self, value: Any) -> None:
        self.value = value


class _Break(Exception):
    pass


class _Continue(Exception):
    pass


# ----------------------------------------------------------------------------------------------------------------
# values

@dataclass
class ExcVal:
    typ: str
    args: tuple = ()
    lineno: int = 0
    cause: Any = None


_obj_counter = itertools.count(1)


class Obj:
    """A heap object: class name + named fields."""
    def __init__(self, cls: str, fields: Optional[dict] = None, module: str = '', fresh: bool = False) -> None:
        self.cls = cls
        self.module = module
        self.fields: dict[str, Any] = dict(fields or {})
        self.oid = next(_obj_counter)
        self.fresh = fresh  # allocated during the call under verification
        self.frozen = False

    def __repr__(self) -> str:
        return f'<{self.cls}#{self.oid}>'


class Box:
    """Mutable container wrapper holding a z3 expression (Seq / set array / dict arrays)."""
    kind = 'box'

    def __init__(self, expr: Any, fresh: bool = False) -> None:
        self.expr = expr
        self.fresh = fresh
        self.oid = next(_obj_counter)


class SSeq(Box):
    """list / bytearray / bytes with symbolic length."""
    kind = 'seq'

    def __init__(self, expr, pytype: str = 'list', fresh: bool = False) -> None:
        super().__init__(expr, fresh)
        self.pytype = pytype

    def __repr__(self):
        return f'SSeq({self.expr})'


class SSet(Box):
    kind = 'set'

    def __repr__(self):
        return f'SSet({self.expr})'


class SDict(Box):
    """expr = (dom array K->Bool, val array K->V)"""
    kind = 'dict'


class PList:
    """Python list with concrete length (elements may be symbolic). Identity = this wrapper."""
    kind = 'plist'

    builder = False

    def __init__(self, items: list, fresh: bool = False, pytype: str = 'list') -> None:
        self.items = list(items)
        self.fresh = fresh
        self.pytype = pytype
        self.oid = next(_obj_counter)

    def __repr__(self):
        return f'PList({self.items})'


class PDict:
    kind = 'pdict'

    def __init__(self, items: Optional[dict] = None, fresh: bool = False) -> None:
        self.items = dict(items or {})
        self.fresh = fresh
        self.oid = next(_obj_counter)


@dataclass
class FuncVal:
    node: Any
    module: str
    qualname: str
    closure: Optional['Env'] = None
    cls: Optional[str] = None
    kind: str = 'function'  # function | classmethod | staticmethod | property


@dataclass
class BoundMethod:
    self_val: Any
    func: FuncVal


@dataclass
class Havocked:
    """An unknown object reference left by a loop havoc; every use is outside the subset (Unsupported)."""
    name: str


@dataclass
class ClassVal:
    name: str
    module: str


@dataclass
class Builtin:
    name: str
    fn: Callable


@dataclass
class ModuleVal:
    name: str


class Env:
    def __init__(self, parent: Optional['Env'] = None, module: str = '') -> None:
        self.vars: dict[str, Any] = {}
        self.parent = parent
        self.module = module or (parent.module if parent else '')
        self.nonlocals: set[str] = set()

    def lookup(self, name: str) -> Any:
        e: Optional[Env] = self
        while e is not None:
            if name in e.vars:
                return e.vars[name]
            e = e.parent
        raise KeyError(name)

    def has(self, name: str) -> bool:
        try:
            self.lookup(name)
            return True
        except KeyError:
            return False

    def set(self, name: str, value: Any) -> None:
        if name in self.nonlocals:
            e = self.parent
            while e is not None:
                if name in e.vars:
                    e.vars[name] = value
                    return
                e = e.parent
        self.vars[name] = value


def is_z3(v: Any) -> bool:
    return isinstance(v, z3.ExprRef)


def is_sym_int(v): return isinstance(v, z3.ArithRef) and v.is_int()
def is_sym_real(v): return isinstance(v, z3.ArithRef) and v.is_real()
def is_sym_bool(v): return isinstance(v, z3.BoolRef)
def is_sym_str(v): return isinstance(v, z3.SeqRef) and v.is_string()
def is_sym_bv(v): return isinstance(v, z3.BitVecRef)
def is_sym_seq(v): return isinstance(v, z3.SeqRef) and not v.is_string()


BVW = 64


def to_z3(v: Any, like: Any = None) -> Any:
    """Lift a concrete Python value to z3 (sort guided by `like`)."""
    if is_z3(v):
        if like is not None and is_z3(like):
            if is_sym_real(like) and is_sym_int(v):
                return z3.ToReal(v)
            if is_sym_int(like) and is_sym_bool(v):
                return z3.If(v, 1, 0)
            if is_sym_bv(like) and is_sym_int(v):
                return z3.Int2BV(v, like.size())
        return v
    if isinstance(v, bool):
        if like is not None and is_sym_int(like):
            return z3.IntVal(int(v))
        if like is not None and is_sym_bv(like):
            return z3.BitVecVal(int(v), like.size())
        return z3.BoolVal(v)
    if isinstance(v, int):
        if like is not None and is_sym_real(like):
            return z3.RealVal(v)
        if like is not None and is_sym_bv(like):
            return z3.BitVecVal(v, like.size())
        return z3.IntVal(v)
    if isinstance(v, float):
        from fractions import Fraction
        fr = Fraction(v)
        return z3.RealVal(f'{fr.numerator}/{fr.denominator}')
    if isinstance(v, str):
        return z3.StringVal(v)
    if isinstance(v, Obj):
        return z3.IntVal(v.oid)       # heap objects as references (their allocation number)
    raise Unsupported(f'cannot lift {type(v).__name__} to z3')


# ----------------------------------------------------------------------------------------------------------------
# path oracle

@dataclass
class Obligation:
    name: str
    pc: list
    goal: Any
    lineno: int = 0
    note: str = ''
    path: int = 0
    kind: str = 'assert'   # assert | cover
    hints: Any = None      # candidate witness (list of constraints) under which a counter-model may be looked for


class Path:
    """One execution path: decisions taken so far, path condition, obligations."""
    def __init__(self, prefix: list[bool], worklist: list, feas_timeout_ms: int = 2000) -> None:
        self.prefix = prefix
        self.worklist = worklist
        self.decisions: list[bool] = []
        self.pc: list = []
        self.solver = z3.Solver()
        self.solver.set('timeout', feas_timeout_ms)
        self.obligations: list[Obligation] = []
        self.fresh_counter = itertools.count()
        self.trace: list[str] = []
        self.feas_unknown = 0
        self.cover_hints: list = []

    def fresh_name(self, base: str) -> str:
        return f'{base}!{next(self.fresh_counter)}'

    def assume(self, cond: Any) -> None:
        if cond is True:
            return
        if cond is False:
            raise PathEnd()
        self.pc.append(cond)
        self.solver.add(cond)

    def feasible(self, cond: Any) -> bool:
        self.solver.push()
        self.solver.add(cond)
        r = self.solver.check()
        self.solver.pop()
        if r == z3.unknown:
            self.feas_unknown += 1
        return r != z3.unsat

    def branch(self, cond: Any, note: str = '') -> bool:
        """Decide a symbolic condition; schedules the other side when both are feasible."""
        if isinstance(cond, bool):
            return cond
        cond = z3.simplify(cond)
        if z3.is_true(cond):
            return True
        if z3.is_false(cond):
            return False
        pos = len(self.decisions)
        if pos < len(self.prefix):
            d = self.prefix[pos]
        else:
            t = self.feasible(cond)
            f = self.feasible(z3.Not(cond))
            if t and f:
                self.worklist.append(self.decisions + [False])
                d = True
            elif t:
                d = True
            elif f:
                d = False
            else:
                raise PathEnd()
        self.decisions.append(d)
        self.assume(cond if d else z3.Not(cond))
        if note:
            self.trace.append(f'{note}={d}')
        return d

    def must_equal_int(self, expr: Any, limit: int = 64) -> Optional[int]:
        """If the path condition forces `expr` to one integer value, return it."""
        expr = z3.simplify(expr)
        if z3.is_int_value(expr):
            return expr.as_long()
        self.solver.push()
        try:
            if self.solver.check() != z3.sat:
                return None
            v = self.solver.model().eval(expr, model_completion=True)
            if not z3.is_int_value(v):
                return None
            self.solver.add(expr != v)
            if self.solver.check() == z3.unsat:
                return v.as_long()
            return None
        finally:
            self.solver.pop()

    def oblige(self, name: str, goal: Any, lineno: int = 0, note: str = '') -> None:
        if goal is True:
            goal = z3.BoolVal(True)
        elif goal is False:
            goal = z3.BoolVal(False)
        self.obligations.append(Obligation(name, list(self.pc), goal, lineno, note,
                                           hints=list(self.cover_hints) or None))

    def cover(self, name: str, lineno: int = 0) -> None:
        """Reachability marker: the path condition here must be satisfiable (vacuity guard)."""
        self.obligations.append(Obligation(name, list(self.pc), z3.BoolVal(False), lineno, kind='cover'))
        if self.cover_hints:
            # the same cover with a candidate witness conjoined: sat(pc and hints) => sat(pc); its unsat means nothing
            self.obligations.append(Obligation(name, list(self.pc) + list(self.cover_hints), z3.BoolVal(False), lineno,
                                               note='hinted', kind='cover'))


# ----------------------------------------------------------------------------------------------------------------
# exception hierarchy (names)

EXC_PARENTS = {
    'BaseException': None, 'Exception': 'BaseException', 'ArithmeticError': 'Exception',
    'ZeroDivisionError': 'ArithmeticError', 'OverflowError': 'ArithmeticError', 'LookupError': 'Exception',
    'IndexError': 'LookupError', 'KeyError': 'LookupError', 'ValueError': 'Exception',
    'UnicodeError': 'ValueError', 'UnicodeDecodeError': 'UnicodeError', 'UnicodeEncodeError': 'UnicodeError',
    'TypeError': 'Exception', 'AttributeError': 'Exception', 'NameError': 'Exception',
    'UnboundLocalError': 'NameError', 'AssertionError': 'Exception', 'StopIteration': 'Exception',
    'RuntimeError': 'Exception', 'NotImplementedError': 'RuntimeError', 'RecursionError': 'RuntimeError',
    'OSError': 'Exception', 'IOError': 'Exception', 'FileNotFoundError': 'OSError', 'FileExistsError': 'OSError',
    'PermissionError': 'OSError', 'EOFError': 'Exception', 'struct.error': 'Exception', 'error': 'Exception',
    'KeyboardInterrupt': 'BaseException', 'GeneratorExit': 'BaseException',
}


class Interp:
    """The interpreter. One instance per path."""

    def __init__(self, path: Path, registry: Any = None, spec_mode: bool = False) -> None:
        self.path = path
        self.registry = registry
        self.depth = 0
        self.inline_limit = 6
        self.exc_parents = dict(EXC_PARENTS)
        self.old_view: Optional[dict] = None
        self.spec_depth = 1 if spec_mode else 0
        self.loop_specs: dict = {}
        self.loop_counter: dict = {}
        self.current_fn: list = []
        self.allocated: list = []
        self.effects: list = []   # (kind, target description) heap writes, for frame checks
        self.call_log: list = []
        self.inlined: set = set()
        self.used_summaries: set = set()
        self.expr_overrides: dict = {}
        self.global_overrides: dict = {}
        self.refs: dict = {}
        from . import builtins_model
        self.builtins = builtins_model.make_builtins(self)
        self.methods = builtins_model

    # -- helpers -----------------------------------------------------------
    @property
    def spec_mode(self) -> bool:
        return self.spec_depth > 0

    def raise_(self, typ: str, *args: Any, lineno: int = 0) -> None:
        raise PyRaise(ExcVal(typ, tuple(args), lineno))

    def is_subclass(self, typ: str, parent: str) -> bool:
        t: Optional[str] = typ
        seen = 0
        while t is not None and seen < 30:
            if t == parent:
                return True
            t = self.exc_parents.get(t)
            seen += 1
        return False

    def load_class_hierarchy(self, module: str) -> None:
        """Exception classes defined in a module: name -> first base."""
        mod = extract.load(module)
        for st in extract._walk_defs(mod.tree.body):
            if isinstance(st, ast.ClassDef) and st.bases:
                b = st.bases[0]
                bname = b.id if isinstance(b, ast.Name) else (b.attr if isinstance(b, ast.Attribute) else None)
                if bname and st.name not in self.exc_parents:
                    self.exc_parents[st.name] = bname

    def fresh(self, base: str, sort: Any) -> Any:
        return z3.Const(self.path.fresh_name(base), sort)

    def fresh_like(self, v: Any, base: str = 'h') -> Any:
        if isinstance(v, bool):
            return self.fresh(base, z3.BoolSort())
        if isinstance(v, int):
            return self.fresh(base, z3.IntSort())
        if isinstance(v, float):
            return self.fresh(base, z3.RealSort())
        if isinstance(v, str):
            return self.fresh(base, z3.StringSort())
        if is_z3(v):
            return self.fresh(base, v.sort())
        if isinstance(v, Box):
            if isinstance(v.expr, tuple):
                v.expr = tuple(self.fresh(base, e.sort()) for e in v.expr)
            else:
                v.expr = self.fresh(base, v.expr.sort())
            return v
        if v is None:
            return None
        raise Unsupported(f'cannot havoc a value of type {type(v).__name__}')

    # -- truthiness ----------------------------------------------------------
    def truth(self, v: Any) -> Any:
        if isinstance(v, (bool, int, float, str, bytes, tuple, frozenset)) or v is None:
            return bool(v)
        if is_sym_bool(v):
            return v
        if is_sym_int(v) or is_sym_real(v):
            return v != 0
        if is_sym_bv(v):
            return v != 0
        if is_sym_str(v):
            # as a disequality (not Length > 0): the false branch then gives `v == ""`, which congruence closure
            # can use under uninterpreted functions such as casefold
            return v != z3.StringVal('')
        if is_sym_seq(v):
            return z3.Length(v) > 0
        if isinstance(v, SSeq):
            return z3.Length(v.expr) > 0
        if isinstance(v, PList):
            return len(v.items) > 0
        if isinstance(v, PDict):
            return len(v.items) > 0
        if isinstance(v, (list, dict, set)):
            return bool(v)
        if isinstance(v, Obj):
            fn = self.find_method(v, '__bool__') or self.find_method(v, '__len__')
            if fn is None:
                return True
            r = self.call_function(fn, [v], {})
            return self.truth(r)
        if isinstance(v, (FuncVal, BoundMethod, ClassVal, Builtin, ModuleVal)):
            return True
        if isinstance(v, SSet):
            return self.methods.set_nonempty(self, v)
        raise Unsupported(f'truthiness of {type(v).__name__}')

    def decide(self, v: Any, note: str = '') -> bool:
        t = self.truth(v)
        if isinstance(t, bool):
            return t
        return self.path.branch(t, note)

    # -- statements ----------------------------------------------------------
    def exec_block(self, stmts: list, env: Env) -> None:
        for st in stmts:
            self.exec_stmt(st, env)

    def exec_stmt(self, st: ast.stmt, env: Env) -> None:
        m = getattr(self, 'st_' + type(st).__name__, None)
        if m is None:
            raise Unsupported(f'statement {type(st).__name__} at line {st.lineno}')
        m(st, env)

    def st_Expr(self, st, env):
        if isinstance(st.value, ast.Constant):
            return  # docstring
        self.eval(st.value, env)

    def st_Pass(self, st, env):
        pass

    def st_Global(self, st, env):
        raise Unsupported('global statement')

    def st_Nonlocal(self, st, env):
        env.nonlocals.update(st.names)

    def st_Assign(self, st, env):
        v = self.eval(st.value, env)
        for tgt in st.targets:
            self.assign(tgt, v, env)

    def st_AnnAssign(self, st, env):
        if st.value is not None:
            self.assign(st.target, self.eval(st.value, env), env)

    def st_AugAssign(self, st, env):
        tgt = st.target
        if isinstance(tgt, ast.Name):
            cur = self.eval(tgt, env)
            r = self.binop(st.op, cur, self.eval(st.value, env), st.lineno, inplace=True)
            self.assign(tgt, r, env)
        elif isinstance(tgt, ast.Attribute):
            obj = self.eval(tgt.value, env)
            cur = self.getattr(obj, tgt.attr, st.lineno)
            r = self.binop(st.op, cur, self.eval(st.value, env), st.lineno, inplace=True)
            self.setattr(obj, tgt.attr, r, st.lineno)
        elif isinstance(tgt, ast.Subscript):
            obj = self.eval(tgt.value, env)
            idx = self.eval_index(tgt.slice, env)
            cur = self.subscript(obj, idx, st.lineno)
            r = self.binop(st.op, cur, self.eval(st.value, env), st.lineno, inplace=True)
            self.store_subscript(obj, idx, r, st.lineno)
        else:
            raise Unsupported('augassign target')

    def assign(self, tgt, v, env):
        if isinstance(tgt, ast.Name):
            env.set(tgt.id, v)
        elif isinstance(tgt, ast.Attribute):
            obj = self.eval(tgt.value, env)
            self.setattr(obj, tgt.attr, v, tgt.lineno)
        elif isinstance(tgt, ast.Subscript):
            obj = self.eval(tgt.value, env)
            idx = self.eval_index(tgt.slice, env)
            self.store_subscript(obj, idx, v, tgt.lineno)
        elif isinstance(tgt, (ast.Tuple, ast.List)):
            items = self.unpack(v, len(tgt.elts), tgt)
            for t, item in zip(tgt.elts, items):
                if isinstance(t, ast.Starred):
                    raise Unsupported('starred assignment')
                self.assign(t, item, env)
        else:
            raise Unsupported(f'assignment target {type(tgt).__name__}')

    def unpack(self, v, n, node) -> list:
        if isinstance(v, (tuple, list)):
            items = list(v)
        elif isinstance(v, PList):
            items = list(v.items)
        elif isinstance(v, str):
            items = list(v)
        elif isinstance(v, Obj):
            it = self.find_method(v, '__iter__')
            if it is None:
                raise Unsupported(f'unpacking object {v.cls}')
            items = self.iterate_concrete(self.call_function(it, [v], {}))
        elif (isinstance(v, z3.DatatypeRef) and v.sort().num_constructors() == 1
              and v.sort().constructor(0).arity() == n):
            # a symbolic tuple (single-constructor datatype of the right arity): the items are its projections
            srt = v.sort()
            items = [srt.accessor(0, i)(v) for i in range(n)]
        else:
            raise Unsupported(f'unpacking {type(v).__name__} at line {node.lineno}')
        if len(items) != n:
            self.raise_('ValueError', 'unpack', lineno=node.lineno)
        return items

    def st_Return(self, st, env):
        raise _Return(self.eval(st.value, env) if st.value is not None else None)

    def st_Break(self, st, env):
        raise _Break()

    def st_Continue(self, st, env):
        raise _Continue()

    def st_Delete(self, st, env):
        for tgt in st.targets:
            if isinstance(tgt, ast.Subscript):
                obj = self.eval(tgt.value, env)
                idx = self.eval_index(tgt.slice, env)
                self.del_subscript(obj, idx, st.lineno)
            elif isinstance(tgt, ast.Name):
                env.vars.pop(tgt.id, None)
            elif isinstance(tgt, ast.Attribute):
                obj = self.eval(tgt.value, env)
                if isinstance(obj, Obj):
                    self.effects.append(('delattr', obj, tgt.attr, st.lineno))
                    obj.fields.pop(tgt.attr, None)
                else:
                    raise Unsupported('del attribute')
            else:
                raise Unsupported('del target')

    def st_Assert(self, st, env):
        if not self.decide(self.eval(st.test, env), f'assert@{st.lineno}'):
            self.raise_('AssertionError', lineno=st.lineno)

    def st_If(self, st, env):
        if self.decide(self.eval(st.test, env), f'if@{st.lineno}'):
            self.exec_block(st.body, env)
        else:
            self.exec_block(st.orelse, env)

    def st_Raise(self, st, env):
        if st.exc is None:
            cur = env.lookup('__current_exc__') if env.has('__current_exc__') else None
            if cur is None:
                raise Unsupported('bare raise outside handler')
            raise PyRaise(cur)
        v = self.eval(st.exc, env)
        exc = self.to_exc(v, st.lineno)
        if st.cause is not None:
            exc.cause = self.eval(st.cause, env)
        raise PyRaise(exc)

    def to_exc(self, v, lineno) -> ExcVal:
        if isinstance(v, ExcVal):
            if not v.lineno:
                v.lineno = lineno
            return v
        if isinstance(v, ClassVal):
            return ExcVal(v.name, (), lineno)
        if isinstance(v, Builtin) and v.name in self.exc_parents:
            return ExcVal(v.name, (), lineno)
        if isinstance(v, Obj):
            return ExcVal(v.cls, (v,), lineno)
        raise Unsupported(f'raise of {type(v).__name__}')

    def st_Try(self, st, env):
        try:
            try:
                self.exec_block(st.body, env)
            except PyRaise as pr:
                for h in st.handlers:
                    if self.handler_matches(h, pr.exc, env):
                        if h.name:
                            env.set(h.name, pr.exc)
                        saved = env.vars.get('__current_exc__')
                        env.vars['__current_exc__'] = pr.exc
                        try:
                            self.exec_block(h.body, env)
                        finally:
                            env.vars['__current_exc__'] = saved
                        break
                else:
                    raise
            else:
                self.exec_block(st.orelse, env)
        except (PathEnd, Unsupported):
            raise
        except (PyRaise, _Return, _Break, _Continue):
            # a raise in the finally block replaces the pending outcome, as in Python
            if st.finalbody:
                self.exec_block(st.finalbody, env)
            raise
        else:
            if st.finalbody:
                self.exec_block(st.finalbody, env)

    def handler_matches(self, h: ast.ExceptHandler, exc: ExcVal, env: Env) -> bool:
        if h.type is None:
            return True
        names = []
        tnodes = h.type.elts if isinstance(h.type, ast.Tuple) else [h.type]
        for t in tnodes:
            if isinstance(t, ast.Name):
                names.append(t.id)
            elif isinstance(t, ast.Attribute):
                full = ast.unparse(t)
                names.append(full if full in self.exc_parents else t.attr)
            else:
                raise Unsupported('except clause type')
        return any(self.is_subclass(exc.typ, n) for n in names)

    def st_With(self, st, env):
        if len(st.items) != 1:
            raise Unsupported('multi-item with')
        item = st.items[0]
        mgr = self.eval(item.context_expr, env)
        enter = self.find_method(mgr, '__enter__') if isinstance(mgr, Obj) else None
        exit_ = self.find_method(mgr, '__exit__') if isinstance(mgr, Obj) else None
        if isinstance(mgr, Obj) and enter is None and isinstance(mgr.fields.get('__enter__'), Builtin):
            # a native model object (file handles of the file-system model)
            n_enter, n_exit = mgr.fields['__enter__'], mgr.fields['__exit__']
            v = n_enter.fn()
            if item.optional_vars is not None:
                self.assign(item.optional_vars, v, env)
            try:
                self.exec_block(st.body, env)
            except PyRaise as pr:
                if not self.decide(n_exit.fn(ClassVal(pr.exc.typ, ''), pr.exc, None)):
                    raise
            except (_Return, _Break, _Continue):
                n_exit.fn(None, None, None)
                raise
            else:
                n_exit.fn(None, None, None)
            return
        if enter is None or exit_ is None:
            raise Unsupported(f'with over {type(mgr).__name__}')
        v = self.call_function(enter, [mgr], {}, st.lineno)
        if item.optional_vars is not None:
            self.assign(item.optional_vars, v, env)
        try:
            self.exec_block(st.body, env)
        except PyRaise as pr:
            r = self.call_function(exit_, [mgr, ClassVal(pr.exc.typ, ''), pr.exc, None], {}, st.lineno)
            if not self.decide(r):
                raise
        except (_Return, _Break, _Continue):
            self.call_function(exit_, [mgr, None, None, None], {}, st.lineno)
            raise
        else:
            self.call_function(exit_, [mgr, None, None, None], {}, st.lineno)

    def st_FunctionDef(self, st, env):
        qn = (self.current_fn[-1].qualname + '.' if self.current_fn else '') + st.name
        env.set(st.name, FuncVal(st, env.module, qn, closure=env))

    def st_Import(self, st, env):
        for a in st.names:
            env.set(a.asname or a.name.split('.')[0], ModuleVal(a.name))

    def st_ImportFrom(self, st, env):
        raise Unsupported('local from-import')

    # loops ---------------------------------------------------------------------
    def _loop_key(self, st) -> tuple:
        fn = self.current_fn[-1] if self.current_fn else None
        return (fn.module if fn else '', fn.qualname if fn else '', st.lineno)

    def loop_spec_for(self, st):
        """Loop contracts are keyed by ordinal within the function (in source order)."""
        fn = self.current_fn[-1] if self.current_fn else None
        if fn is None or self.registry is None:
            return None
        loops = [n for n in ast.walk(fn.node) if isinstance(n, (ast.While, ast.For))]
        loops.sort(key=lambda n: (n.lineno, n.col_offset))
        ordinal = loops.index(st)
        return self.registry.loop_spec(fn.module, fn.qualname, ordinal), ordinal

    def st_While(self, st, env):
        spec, ordinal = self.loop_spec_for(st) or (None, 0)
        if spec is None:
            # No invariant: only concrete-condition loops can be unrolled (complete while the condition stays
            # concrete); a symbolic condition without an invariant is outside the subset.
            n = 0
            while True:
                t = self.truth(self.eval(st.test, env))
                if not isinstance(t, bool):
                    raise Unsupported(f'while loop at line {st.lineno} needs an invariant')
                if not t:
                    self.exec_block(st.orelse, env)
                    return
                n += 1
                if n > 4096:
                    raise Unsupported(f'while loop at line {st.lineno} does not terminate concretely')
                try:
                    self.exec_block(st.body, env)
                except _Break:
                    return
                except _Continue:
                    continue
        self.run_invariant_loop(st, env, spec, ordinal, test=lambda: self.eval(st.test, env), pre_body=None)

    def run_invariant_loop(self, st, env, spec, ordinal, test, pre_body, on_havoc=None):
        fn = self.current_fn[-1]
        tag = f'{self.label}.loop{ordinal}' if getattr(self, 'label', '') and self.depth <= 1 else f'{fn.qualname}.loop{ordinal}'
        old_view = self.fn_old_view()
        # 1. invariant holds on entry
        for name, goal in spec.eval_invariants(self, env, old_view):
            self.path.oblige(f'{tag}.init.{name}', goal, st.lineno)
        # 2. havoc everything the body may modify
        self.havoc_loop_targets(st, env, spec)
        if on_havoc is not None:
            on_havoc()
        for name, goal in spec.eval_invariants(self, env, old_view):
            self.path.assume(goal)
        variant0 = spec.eval_decreases(self, env, old_view)
        t = self.truth(test())
        if self.path.branch(t, f'{tag}.enter') if not isinstance(t, bool) else t:
            # arbitrary iteration
            self.path.cover(f'{tag}.body_reachable', st.lineno)
            if pre_body is not None:
                pre_body()
            try:
                self.exec_block(st.body, env)
            except _Break:
                return  # continue after the loop with the state at the break
            except _Continue:
                pass
            for name, goal in spec.eval_invariants(self, env, old_view):
                self.path.oblige(f'{tag}.preserve.{name}', goal, st.lineno)
            if variant0 is not None:
                v1 = spec.eval_decreases(self, env, old_view)
                self.path.oblige(f'{tag}.decreases', z3.And(variant0 >= 0, v1 < variant0), st.lineno)
            raise PathEnd()
        else:
            self.exec_block(st.orelse, env)

    def havoc_loop_targets(self, st, env, spec):
        names: set[str] = set()
        attr_targets: list = []
        mutated_names: set[str] = set()
        for n in ast.walk(st):
            if isinstance(n, ast.Name) and isinstance(n.ctx, (ast.Store, ast.Del)):
                names.add(n.id)
            elif isinstance(n, ast.Attribute) and isinstance(n.ctx, ast.Store):
                attr_targets.append(n)
            elif isinstance(n, ast.AugAssign) and isinstance(n.target, ast.Attribute):
                attr_targets.append(n.target)
            elif isinstance(n, ast.Call) and isinstance(n.func, ast.Attribute) \
                    and n.func.attr in MUTATING_METHODS:
                base = n.func.value
                if isinstance(base, ast.Name):
                    mutated_names.add(base.id)
                elif isinstance(base, ast.Attribute):
                    attr_targets.append(base)
            elif isinstance(n, (ast.Subscript,)) and isinstance(n.ctx, (ast.Store, ast.Del)):
                base = n.value
                if isinstance(base, ast.Name):
                    mutated_names.add(base.id)
                elif isinstance(base, ast.Attribute):
                    attr_targets.append(base)
        for extra in spec.modifies_names:
            mutated_names.add(extra)
        if getattr(spec, 'idx_name', ''):
            names.add(spec.idx_name)
        for name in sorted(names):
            if env.has(name):
                cur = env.lookup(name)
                if isinstance(cur, (FuncVal, Builtin, ClassVal, ModuleVal)):
                    continue
                env.set(name, self.havoc_value(cur, name))
            # a name first assigned inside the loop is simply unbound before it
        for name in sorted(mutated_names):
            if env.has(name):
                self.havoc_value(env.lookup(name), name)
        for a in attr_targets:
            try:
                obj = self.eval(a.value, env)
            except (KeyError, Unsupported, PyRaise):
                continue
            if isinstance(obj, Obj) and a.attr in obj.fields:
                cur = obj.fields[a.attr]
                if isinstance(a.ctx, ast.Store) and (cur is None or isinstance(cur, (Obj, Havocked))):
                    # the attribute is rebound to some object in the loop: after an arbitrary number of iterations
                    # it holds an unknown reference; any use of it before it is assigned again is refused.
                    obj.fields[a.attr] = Havocked(a.attr)
                    continue
                obj.fields[a.attr] = self.havoc_value(cur, a.attr)

    def havoc_value(self, cur, name):
        if isinstance(cur, Box):
            return self.fresh_like(cur, name)
        if isinstance(cur, PList) and all(isinstance(x, str) or is_sym_str(x) for x in cur.items):
            # a list of strings that the loop only appends to and that is later ''.join()ed: a string builder.
            # Havoc = arbitrary accumulated content; len()/indexing of a builder is refused (Unsupported).
            cur.items = [self.fresh(name + '_acc', z3.StringSort())]
            cur.builder = True
            self.used_summaries.add('list of str used as a string builder (append/+=/join only)')
            return cur
        if isinstance(cur, (PList, PDict, Obj)):
            raise Unsupported(f'loop modifies {name}: a container with concrete shape cannot be havocked; '
                              f'use a symbolic container in the harness')
        if isinstance(cur, tuple):
            return tuple(self.havoc_value(c, name) for c in cur)
        return self.fresh_like(cur, name)

    def st_For(self, st, env):
        it = self.eval(st.iter, env)
        spec_ord = self.loop_spec_for(st)
        spec, ordinal = spec_ord if spec_ord else (None, 0)
        if spec is None:
            items = self.iterate_concrete(it)
            for item in items:
                self.assign(st.target, item, env)
                try:
                    self.exec_block(st.body, env)
                except _Break:
                    return
                except _Continue:
                    continue
            self.exec_block(st.orelse, env)
            return
        # for-loop with an invariant: desugar to an index loop over a symbolic sequence / range.
        idx_name = f'__idx{ordinal}'
        seq, length, getter = self.indexable(it, st.lineno)
        env.set(idx_name, 0)
        pos0 = it.pos if isinstance(it, SIter) else None

        def test():
            if pos0 is not None:   # keep the iterator's ghost position in step with the loop index
                it.pos = self.binop(ast.Add(), pos0, env.lookup(idx_name), st.lineno)
            if length is None:
                return True        # itertools.count(): never exhausted
            return self.compare_op(ast.Lt(), env.lookup(idx_name), length)

        def pre_body():
            i = env.lookup(idx_name)
            self.assign(st.target, getter(i), env)
            env.set(idx_name, self.binop(ast.Add(), i, 1, st.lineno))
            if pos0 is not None:
                it.pos = self.binop(ast.Add(), pos0, env.lookup(idx_name), st.lineno)
        spec.idx_name = idx_name

        def sync():
            # facts about any for-loop over a sequence: the hidden index is within 0..len
            zi = to_z3(env.lookup(idx_name))
            self.path.assume(zi >= 0 if length is None else z3.And(zi >= 0, zi <= to_z3(length)))
            if pos0 is not None:
                it.pos = self.binop(ast.Add(), pos0, env.lookup(idx_name), st.lineno)
        self.run_invariant_loop(st, env, spec, ordinal, test, pre_body, on_havoc=sync)

    def indexable(self, it, lineno):
        """(seq, length, getter) for the iterables a for-loop with an invariant may range over."""
        if isinstance(it, RangeVal):
            if it.step != 1:
                raise Unsupported('range step with invariant')
            length = self.binop(ast.Sub(), it.stop, it.start, lineno)
            if is_z3(length):
                length = z3.If(length < 0, 0, length)
            else:
                length = max(length, 0)
            return it, length, (lambda i: self.binop(ast.Add(), it.start, i, lineno))
        if isinstance(it, CountVal):
            return it, None, (lambda i: self.binop(ast.Add(), it.start, i, lineno))
        if isinstance(it, SIter):
            p0 = to_z3(it.pos)
            n = to_z3(it.length) - p0
            return it, z3.If(n < 0, 0, n), (lambda i: it.seq[p0 + to_z3(i)])
        if isinstance(it, SSeq):
            return it, z3.Length(it.expr), (lambda i: self.seq_at(it.expr, i))
        if is_sym_str(it) or is_sym_seq(it):
            return it, z3.Length(it), (lambda i: self.seq_at(it, i))
        if isinstance(it, EnumerateVal):
            seq, length, getter = self.indexable(it.inner, lineno)
            return it, length, (lambda i: (self.binop(ast.Add(), i, it.start, lineno), getter(i)))
        raise Unsupported(f'for-loop with invariant over {type(it).__name__}')

    def seq_at(self, s, i):
        i = to_z3(i)
        if s.is_string():
            return z3.SubString(s, i, 1)
        return s[i]

    def iterate_concrete(self, it) -> list:
        if isinstance(it, (list, tuple, str, frozenset, set, range, bytes)):
            return list(it)
        if isinstance(it, dict):
            return list(it.keys())
        if isinstance(it, PList):
            return list(it.items)
        if isinstance(it, PDict):
            return list(it.items.keys())
        if isinstance(it, RangeVal):
            if all(isinstance(x, int) for x in (it.start, it.stop, it.step)):
                return list(range(it.start, it.stop, it.step))
            raise Unsupported('symbolic range needs an invariant')
        if isinstance(it, EnumerateVal):
            inner = self.iterate_concrete(it.inner)
            return [(i + it.start, x) for i, x in enumerate(inner)]
        if isinstance(it, ZipVal):
            return [tuple(t) for t in zip(*[self.iterate_concrete(x) for x in it.parts])]
        if isinstance(it, GenVal):
            return list(it.items)
        from . import arrays
        if isinstance(it, arrays.View):
            n = it.count if isinstance(it.count, int) else self.path.must_equal_int(it.count)
            if n is None:
                raise Unsupported('iteration over a buffer slice of symbolic length')
            return [it.fn(z3.IntVal(k)) for k in range(n)]
        if isinstance(it, Obj):
            m = self.find_method(it, '__iter__')
            if m is not None:
                return self.iterate_concrete(self.call_function(m, [it], {}))
        if isinstance(it, SSeq) or is_sym_str(it) or is_sym_seq(it):
            raise Unsupported('iteration over a symbolic sequence needs a loop invariant')
        raise Unsupported(f'iteration over {type(it).__name__}')

    # -- expressions -----------------------------------------------------------
    def eval(self, node: ast.expr, env: Env) -> Any:
        if self.expr_overrides and isinstance(node, (ast.SetComp, ast.ListComp, ast.DictComp, ast.GeneratorExp,
                                                     ast.Call)) and not self.spec_mode:
            key = ' '.join(ast.unparse(node).split())
            ov = self.expr_overrides.get(key)
            if ov is not None:
                self.used_summaries.add(f'assumed contract on expression `{key}`: {ov.__doc__ or ov.__name__}')
                return ov(self, env)
        m = getattr(self, 'ex_' + type(node).__name__, None)
        if m is None:
            raise Unsupported(f'expression {type(node).__name__} at line {getattr(node, "lineno", 0)}')
        return m(node, env)

    def ex_Constant(self, node, env):
        if isinstance(node.value, bytes) and getattr(self, 'bytes_as_latin1_str', False):
            # byte strings modelled as strings of code points 0..255 (the contract chooses this model)
            return node.value.decode('latin-1')
        return node.value

    def ex_Name(self, node, env):
        try:
            return env.lookup(node.id)
        except KeyError:
            pass
        if node.id in self.global_overrides:
            return self.global_overrides[node.id]
        if node.id in self.builtins:
            return self.builtins[node.id]
        v = self.module_global(env.module, node.id)
        if v is not _MISSING:
            return v
        raise Unsupported(f'unknown name {node.id!r} at line {node.lineno}')

    def module_global(self, module: str, name: str) -> Any:
        if not module or module.startswith('@'):
            return _MISSING
        mod = extract.load(module)
        n = extract._find_in(mod.tree.body, name)
        if isinstance(n, ast.ClassDef):
            return ClassVal(name, module)
        if isinstance(n, ast.FunctionDef):
            return FuncVal(n, module, name)
        try:
            return self.lift_const(mod.const(name))
        except (KeyError, extract.ConstEvalError):
            pass
        imp = find_import(mod, name)
        if imp is not None:
            return imp
        # a module-level alias of another global (`Py_Vec = Vec`): the last such assignment, to a plain name
        for stmt in reversed(mod.tree.body):
            if isinstance(stmt, ast.Assign) and len(stmt.targets) == 1 and isinstance(stmt.targets[0], ast.Name) \
                    and stmt.targets[0].id == name and isinstance(stmt.value, ast.Name) and stmt.value.id != name:
                return self.module_global(module, stmt.value.id)
        return _MISSING

    def lift_const(self, v):
        if isinstance(v, list):
            return PList([self.lift_const(x) for x in v])
        if isinstance(v, dict):
            return PDict({k: self.lift_const(x) for k, x in v.items()})
        return v

    def ex_Tuple(self, node, env):
        out = []
        for e in node.elts:
            if isinstance(e, ast.Starred):
                out.extend(self.iterate_concrete(self.eval(e.value, env)))
            else:
                out.append(self.eval(e, env))
        return tuple(out)

    def ex_List(self, node, env):
        out = []
        for e in node.elts:
            if isinstance(e, ast.Starred):
                out.extend(self.iterate_concrete(self.eval(e.value, env)))
            else:
                out.append(self.eval(e, env))
        pl = PList(out, fresh=True)
        self.allocated.append(pl)
        return pl

    def ex_Dict(self, node, env):
        d = PDict(fresh=True)
        for k, v in zip(node.keys, node.values):
            if k is None:
                raise Unsupported('dict unpacking')
            d.items[self.eval(k, env)] = self.eval(v, env)
        return d

    def ex_Set(self, node, env):
        return {self.eval(e, env) for e in node.elts}

    def ex_JoinedStr(self, node, env):
        parts = []
        for v in node.values:
            if isinstance(v, ast.Constant):
                parts.append(v.value)
            else:
                val = self.eval(v.value, env)
                spec = self.eval(v.format_spec, env) if v.format_spec is not None else ''
                parts.append(self.methods.format_value(self, val, spec, v.conversion, node.lineno))
        return self.methods.str_concat(self, parts)

    def ex_IfExp(self, node, env):
        if self.spec_mode:
            c = self.truth(self.eval(node.test, env))
            if isinstance(c, bool):
                return self.eval(node.body if c else node.orelse, env)
            a = self.eval(node.body, env)
            b = self.eval(node.orelse, env)
            return self.ite(c, a, b)
        if self.decide(self.eval(node.test, env), f'ifexp@{node.lineno}'):
            return self.eval(node.body, env)
        return self.eval(node.orelse, env)

    def ite(self, c, a, b):
        if a is b:
            return a
        if isinstance(a, tuple) and isinstance(b, tuple) and len(a) == len(b):
            return tuple(self.ite(c, x, y) for x, y in zip(a, b))
        if not is_z3(a) and not is_z3(b) and type(a) is type(b) and a == b:
            return a
        za = to_z3(a, b)
        zb = to_z3(b, za)
        za = to_z3(a, zb)
        return z3.If(c, za, zb)

    def ex_BoolOp(self, node, env):
        is_and = isinstance(node.op, ast.And)
        if self.spec_mode:
            vals = []
            for sub in node.values:
                v = self.truth(self.eval(sub, env))
                if isinstance(v, bool):
                    if v != is_and:          # False in an `and`, True in an `or`: decided (short circuit)
                        return v
                    continue
                vals.append(v)
            if not vals:
                return is_and
            zs = [to_z3(v) for v in vals]
            return (z3.And(*zs) if is_and else z3.Or(*zs)) if len(zs) > 1 else zs[0]
        result = None
        for i, sub in enumerate(node.values):
            result = self.eval(sub, env)
            if i == len(node.values) - 1:
                return result
            t = self.decide(result, f'boolop@{node.lineno}.{i}')
            if is_and and not t:
                return result
            if not is_and and t:
                return result
        return result

    def ex_UnaryOp(self, node, env):
        v = self.eval(node.operand, env)
        if isinstance(node.op, ast.Not):
            t = self.truth(v)
            return (not t) if isinstance(t, bool) else z3.Not(t)
        if isinstance(node.op, ast.USub):
            if isinstance(v, Obj):
                return self.call_dunder(v, '__neg__', [], node.lineno)
            return -v
        if isinstance(node.op, ast.UAdd):
            return v
        if isinstance(node.op, ast.Invert):
            if isinstance(v, int) or is_sym_bv(v):
                return ~v
            raise Unsupported('~ on a mathematical integer')
        raise Unsupported('unary op')

    def ex_BinOp(self, node, env):
        a = self.eval(node.left, env)
        b = self.eval(node.right, env)
        return self.binop(node.op, a, b, node.lineno)

    def ex_Compare(self, node, env):
        left = self.eval(node.left, env)
        results = []
        for op, cnode in zip(node.ops, node.comparators):
            right = self.eval(cnode, env)
            r = self.compare_op(op, left, right, node.lineno)
            if len(node.ops) == 1:
                return r
            if isinstance(r, bool):
                if not r:
                    return False
            else:
                results.append(r)
            left = right
        if not results:
            return True
        return z3.And(*results) if len(results) > 1 else results[0]

    def ex_Attribute(self, node, env):
        v = node.value
        if isinstance(v, ast.Call) and isinstance(v.func, ast.Name) and v.func.id == 'super' and not v.args:
            fn = self.current_fn[-1]
            first = fn.node.args.args[0].arg
            selfv = env.lookup(first)
            if isinstance(selfv, Obj):
                m = self.find_method_cls(selfv.cls, selfv.module, node.attr, after=fn.cls)
                if m is None:
                    if node.attr == '__init__':
                        return Builtin('object.__init__', lambda *a, **k: None)
                    raise Unsupported(f'super().{node.attr} not found')
                return BoundMethod(selfv, m)
            raise Unsupported('super() in classmethod')
        obj = self.eval(node.value, env)
        return self.getattr(obj, node.attr, node.lineno)

    def ex_Subscript(self, node, env):
        obj = self.eval(node.value, env)
        idx = self.eval_index(node.slice, env)
        return self.subscript(obj, idx, node.lineno)

    def eval_index(self, sl, env):
        if isinstance(sl, ast.Slice):
            return SliceVal(self.eval(sl.lower, env) if sl.lower else None,
                            self.eval(sl.upper, env) if sl.upper else None,
                            self.eval(sl.step, env) if sl.step else None)
        return self.eval(sl, env)

    def ex_Lambda(self, node, env):
        return FuncVal(node, env.module, '<lambda>', closure=env)

    def ex_NamedExpr(self, node, env):
        v = self.eval(node.value, env)
        env.set(node.target.id, v)
        return v

    def ex_Starred(self, node, env):
        raise Unsupported('starred expression')

    def ex_ListComp(self, node, env):
        out: list = []
        self.comprehension(node.generators, env, lambda e: out.append(self.eval(node.elt, e)))
        pl = PList(out, fresh=True)
        self.allocated.append(pl)
        return pl

    def ex_GeneratorExp(self, node, env):
        out: list = []
        self.comprehension(node.generators, env, lambda e: out.append(self.eval(node.elt, e)))
        return GenVal(out)

    def ex_SetComp(self, node, env):
        out: list = []
        self.comprehension(node.generators, env, lambda e: out.append(self.eval(node.elt, e)))
        return set(out)

    def ex_DictComp(self, node, env):
        d = PDict(fresh=True)

        def emit(e):
            d.items[self.eval(node.key, e)] = self.eval(node.value, e)
        self.comprehension(node.generators, env, emit)
        return d

    def comprehension(self, generators, env, emit):
        inner = Env(env)

        def rec(i):
            if i == len(generators):
                emit(inner)
                return
            g = generators[i]
            for item in self.iterate_concrete(self.eval(g.iter, inner)):
                self.assign(g.target, item, inner)
                if all(self.decide(self.eval(c, inner)) for c in g.ifs):
                    rec(i + 1)
        rec(0)

    def ex_Call(self, node, env):
        # spec-mode special forms
        if isinstance(node.func, ast.Name):
            special = getattr(self, 'special_' + node.func.id, None)
            if special is not None and (self.spec_mode or node.func.id in ('cast',)):
                return special(node, env)
        fn = self.eval(node.func, env)
        args = []
        for a in node.args:
            if isinstance(a, ast.Starred):
                args.extend(self.iterate_concrete(self.eval(a.value, env)))
            else:
                args.append(self.eval(a, env))
        kwargs = {}
        for k in node.keywords:
            if k.arg is None:
                d = self.eval(k.value, env)
                if isinstance(d, PDict):
                    kwargs.update(d.items)
                elif isinstance(d, dict):
                    kwargs.update(d)
                else:
                    raise Unsupported('**kwargs of non-dict')
            else:
                kwargs[k.arg] = self.eval(k.value, env)
        return self.call(fn, args, kwargs, node.lineno)

    # spec special forms ----------------------------------------------------------
    def special_cast(self, node, env):
        return self.eval(node.args[1], env)

    def special_old(self, node, env):
        view = env.lookup('__old__') if env.has('__old__') else None
        if view is None:
            raise Unsupported('old() outside a postcondition')
        saved = self.old_view
        self.old_view = view
        try:
            return self.freeze_old(self.eval(node.args[0], env))
        finally:
            self.old_view = saved

    def freeze_old(self, v):
        if isinstance(v, Box) and self.old_view is not None and v.oid in self.old_view:
            c = type(v).__new__(type(v))
            c.__dict__.update(v.__dict__)
            c.expr = self.old_view[v.oid]
            return c
        return v

    def special_implies(self, node, env):
        a = self.truth(self.eval(node.args[0], env))
        if a is False:
            return True
        b = self.truth(self.eval(node.args[1], env))
        if a is True:
            return b
        return z3.Implies(a, to_z3(b))

    def special_iff(self, node, env):
        a = to_z3(self.truth(self.eval(node.args[0], env)))
        b = to_z3(self.truth(self.eval(node.args[1], env)))
        return a == b

    def _quant(self, node, env, q):
        lam = node.args[-1]
        if not isinstance(lam, ast.Lambda):
            raise Unsupported('quantifier body must be a lambda')
        sorts = [self.eval(a, env) for a in node.args[:-1]]
        names = [a.arg for a in lam.args.args]
        if not sorts:
            sorts = [z3.IntSort()] * len(names)
        inner = Env(env)
        bound = []
        for n, s in zip(names, sorts):
            if isinstance(s, Builtin):
                s = {'int': z3.IntSort(), 'str': z3.StringSort(), 'bool': z3.BoolSort(),
                     'float': z3.RealSort()}[s.name]
            c = z3.Const(self.path.fresh_name('q_' + n), s)
            bound.append(c)
            inner.set(n, c)
        body = to_z3(self.truth(self.eval(lam.body, inner)))
        return q(bound, body)

    def special_forall(self, node, env):
        return self._quant(node, env, z3.ForAll)

    def special_exists(self, node, env):
        return self._quant(node, env, z3.Exists)

    # -- attribute access -----------------------------------------------------------
    def getattr(self, obj, name, lineno=0):
        if isinstance(obj, Obj):
            fields = obj.fields
            if self.old_view is not None and ('obj', obj.oid) in self.old_view:
                fields = self.old_view[('obj', obj.oid)]
            if name in fields:
                v = fields[name]
                return self.freeze_old(v) if self.old_view is not None else v
            fn = self.find_method(obj, name)
            if fn is not None:
                if fn.kind == 'property':
                    return self.call_function(fn, [obj], {}, lineno)
                if fn.kind == 'staticmethod':
                    return fn
                if fn.kind == 'classmethod':
                    return BoundMethod(ClassVal(obj.cls, obj.module), fn)
                return BoundMethod(obj, fn)
            cv = self.class_attr(obj.cls, obj.module, name)
            if cv is not _MISSING:
                return cv
            if name == '__class__':
                return ClassVal(obj.cls, obj.module)
            self.raise_('AttributeError', name, lineno=lineno)
        if obj is None:
            self.raise_('AttributeError', name, lineno=lineno)
        if isinstance(obj, ClassVal):
            if obj.module:
                fn = self.find_method_cls(obj.name, obj.module, name)
                if fn is not None:
                    if fn.kind == 'classmethod':
                        return BoundMethod(obj, fn)
                    return fn
                cv = self.class_attr(obj.name, obj.module, name)
                if cv is not _MISSING:
                    return cv
            if name == '__name__':
                return obj.name
            if name == '__new__':
                def _new(cls, *a, **k):
                    o = Obj(cls.name, module=cls.module, fresh=True)
                    self.allocated.append(o)
                    return o
                return Builtin('__new__', _new)
            raise Unsupported(f'class attribute {obj.name}.{name}')
        if isinstance(obj, ModuleVal):
            return self.methods.module_attr(self, obj, name)
        if isinstance(obj, ExcVal):
            if name == 'args':
                return obj.args
            raise Unsupported(f'exception attribute {name}')
        if isinstance(obj, SliceVal):
            return getattr(obj, name)
        if isinstance(obj, Noop):
            return Builtin('noop.' + name, lambda *a, **k: None)
        # methods of builtin types
        return self.methods.bound_builtin_method(self, obj, name, lineno)

    def class_attr(self, cls: str, module: str, name: str):
        for cname, cmod in self.mro(cls, module):
            mod = extract.load(cmod)
            try:
                return self.lift_const(mod.const(f'{cname}.{name}'))
            except (KeyError, extract.ConstEvalError):
                continue
        return _MISSING

    def setattr(self, obj, name, v, lineno=0):
        if isinstance(obj, Obj):
            setter = self.find_property_setter(obj, name)
            if setter is not None and name not in obj.fields:
                self.call_function(setter, [obj, v], {}, lineno)
                return
            if obj.frozen:
                self.raise_('AttributeError', name, lineno=lineno)
            self.effects.append(('setattr', obj, name, lineno))
            obj.fields[name] = v
            return
        raise Unsupported(f'attribute store on {type(obj).__name__}')

    # -- classes / methods ---------------------------------------------------------
    def mro(self, cls: str, module: str) -> list[tuple[str, str]]:
        out = []
        seen = set()

        def visit(c, m):
            if (c, m) in seen or not m:
                return
            seen.add((c, m))
            mod = extract.load(m)
            cd = mod.classdef(c)
            if cd is None:
                imp = find_import(mod, c)
                if isinstance(imp, ClassVal):
                    visit(imp.name, imp.module)
                return
            out.append((c, m))
            for b in cd.bases:
                bname = None
                if isinstance(b, ast.Name):
                    bname = b.id
                elif isinstance(b, ast.Subscript) and isinstance(b.value, ast.Name):
                    bname = b.value.id
                if bname:
                    visit(bname, m)
        visit(cls, module)
        return out

    def find_method_cls(self, cls: str, module: str, name: str, after: Optional[str] = None) -> Optional[FuncVal]:
        skipping = after is not None
        for cname, cmod in self.mro(cls, module):
            if skipping:
                if cname == after:
                    skipping = False
                continue
            cd = extract.load(cmod).classdef(cname)
            best = None
            for st in extract._walk_defs(cd.body):
                if isinstance(st, ast.FunctionDef) and st.name == name and not extract._is_overload(st):
                    decs = extract.decorators(st)
                    if any(d.endswith('.setter') or d.endswith('.deleter') for d in decs):
                        continue
                    kind = 'function'
                    if 'classmethod' in decs:
                        kind = 'classmethod'
                    elif 'staticmethod' in decs:
                        kind = 'staticmethod'
                    elif 'property' in decs:
                        kind = 'property'
                    best = FuncVal(st, cmod, f'{cname}.{name}', cls=cname, kind=kind)
            if best is not None:
                return best
        return None

    def find_property_setter(self, obj: Obj, name: str) -> Optional[FuncVal]:
        for cname, cmod in self.mro(obj.cls, obj.module):
            cd = extract.load(cmod).classdef(cname)
            for st in extract._walk_defs(cd.body):
                if isinstance(st, ast.FunctionDef) and st.name == name and f'{name}.setter' in extract.decorators(st):
                    return FuncVal(st, cmod, f'{cname}.{name}.setter', cls=cname)
        return None

    def find_method(self, obj, name: str) -> Optional[FuncVal]:
        if not isinstance(obj, Obj) or not obj.module:
            return None
        return self.find_method_cls(obj.cls, obj.module, name)

    def call_dunder(self, obj, name, args, lineno):
        fn = self.find_method(obj, name)
        if fn is None:
            raise Unsupported(f'{obj.cls} has no {name}')
        return self.call_function(fn, [obj] + list(args), {}, lineno)

    # -- calls -------------------------------------------------------------------------
    def call(self, fn, args, kwargs, lineno=0):
        if isinstance(fn, Builtin):
            return fn.fn(*args, **kwargs)
        if isinstance(fn, BoundMethod):
            return self.call_function(fn.func, [fn.self_val] + list(args), kwargs, lineno)
        if isinstance(fn, FuncVal):
            return self.call_function(fn, list(args), kwargs, lineno)
        if isinstance(fn, ClassVal):
            return self.instantiate(fn, args, kwargs, lineno)
        if isinstance(fn, Obj):
            m = self.find_method(fn, '__call__')
            if m is not None:
                return self.call_function(m, [fn] + list(args), kwargs, lineno)
            if isinstance(fn.fields.get('__call__'), Builtin):     # native model object
                return fn.fields['__call__'].fn(*args, **kwargs)
        if isinstance(fn, UninterpFn):
            return fn(self, *args)
        raise Unsupported(f'call of {type(fn).__name__} at line {lineno}')

    def instantiate(self, cls: ClassVal, args, kwargs, lineno):
        if cls.name in self.exc_parents and not (cls.module and self.find_method_cls(cls.name, cls.module, '__init__')):
            return ExcVal(cls.name, tuple(args), lineno)
        if self.registry is not None:
            ctor = self.registry.constructor_model(cls.module, cls.name)
            if ctor is not None:
                return ctor(self, cls, args, kwargs, lineno)
        if not cls.module:
            raise Unsupported(f'instantiation of {cls.name}')
        obj = Obj(cls.name, module=cls.module, fresh=True)
        self.allocated.append(obj)
        init = self.find_method_cls(cls.name, cls.module, '__init__')
        if init is None and self.attrs_fields(cls) is not None:
            self.attrs_init(obj, cls, args, kwargs, lineno)
            return obj
        if init is not None:
            self.call_function(init, [obj] + list(args), kwargs, lineno)
        elif self.is_subclass(cls.name, 'BaseException'):
            return ExcVal(cls.name, tuple(args), lineno)
        return obj

    def attrs_fields(self, cls: ClassVal):
        """Fields of an attrs class reconstructed from its body: [(name, default_node|None, factory_node|None,
        converter_node|None, init: bool, kw_only: bool)] over the MRO (base fields first); None if not attrs."""
        out = []
        is_attrs = False
        for cname, cmod in reversed(self.mro(cls.name, cls.module)):
            cd = extract.load(cmod).classdef(cname)
            decs = extract.decorators(cd)
            if not any(d.split('.')[-1] in ('define', 'frozen', 'mutable', 's', 'attrs', 'dataclass') for d in decs):
                continue
            is_attrs = True
            kw_all = False
            for d in cd.decorator_list:
                if isinstance(d, ast.Call):
                    for k in d.keywords:
                        if k.arg == 'kw_only' and isinstance(k.value, ast.Constant):
                            kw_all = bool(k.value.value)
            for st in cd.body:
                if not isinstance(st, ast.AnnAssign) or not isinstance(st.target, ast.Name):
                    continue
                ann = ast.unparse(st.annotation)
                if ann.startswith('ClassVar') or ann.startswith("'ClassVar"):
                    continue
                name = st.target.id
                default = factory = conv = None
                init = True
                kw_only = kw_all
                v = st.value
                if isinstance(v, ast.Call) and ast.unparse(v.func).split('.')[-1] in ('field', 'ib', 'attrib'):
                    for k in v.keywords:
                        if k.arg == 'default':
                            default = k.value
                        elif k.arg == 'factory':
                            factory = k.value
                        elif k.arg == 'converter':
                            conv = k.value
                        elif k.arg == 'init' and isinstance(k.value, ast.Constant):
                            init = bool(k.value.value)
                        elif k.arg == 'kw_only' and isinstance(k.value, ast.Constant):
                            kw_only = bool(k.value.value)
                    if isinstance(default, ast.Call) and ast.unparse(default.func).split('.')[-1] == 'Factory':
                        factory, default = default.args[0], None
                elif isinstance(v, ast.Call) and ast.unparse(v.func).split('.')[-1] == 'Factory':
                    factory = v.args[0]
                elif v is not None:
                    default = v
                out = [f for f in out if f[0] != name]
                out.append((name, default, factory, conv, init, kw_only, cmod))
        return out if is_attrs else None

    def attrs_init(self, obj, cls, args, kwargs, lineno):
        self.used_summaries.add('attrs-generated __init__ reconstructed from the class body')
        fields = self.attrs_fields(cls)
        kwargs = dict(kwargs)
        pos = [f for f in fields if f[4] and not f[5]]
        if len(args) > len(pos):
            self.raise_('TypeError', 'too many arguments', lineno=lineno)
        for i, (name, default, factory, conv, init, kw_only, cmod) in enumerate(fields):
            env = Env(None, cmod)
            pname = name.lstrip('_')
            if init and not kw_only and pos.index(fields[i]) < len(args):
                v = args[pos.index(fields[i])]
            elif init and pname in kwargs:
                v = kwargs.pop(pname)
            elif default is not None:
                v = self.eval(default, env)
            elif factory is not None:
                v = self.call(self.eval(factory, env), [], {}, lineno)
            elif not init:
                continue
            else:
                self.raise_('TypeError', f'missing argument {pname}', lineno=lineno)
            if conv is not None:
                v = self.call(self.eval(conv, env), [v], {}, lineno)
            obj.fields[name] = v
        if kwargs:
            self.raise_('TypeError', f'unexpected keyword {list(kwargs)}', lineno=lineno)
        post = self.find_method_cls(cls.name, cls.module, '__attrs_post_init__')
        if post is not None:
            self.call_function(post, [obj], {}, lineno)

    def bind_args(self, fnode, args, kwargs, env: Env, lineno=0):
        a = fnode.args
        params = [p.arg for p in a.posonlyargs + a.args]
        defaults = a.defaults
        n_no_default = len(params) - len(defaults)
        kwargs = dict(kwargs)
        if len(args) > len(params) and a.vararg is None:
            self.raise_('TypeError', 'too many arguments', lineno=lineno)
        for i, p in enumerate(params):
            if i < len(args):
                env.vars[p] = args[i]
            elif p in kwargs:
                env.vars[p] = kwargs.pop(p)
            elif i >= n_no_default:
                env.vars[p] = self.eval(defaults[i - n_no_default], env.parent or env)
            else:
                self.raise_('TypeError', f'missing argument {p}', lineno=lineno)
        if a.vararg is not None:
            env.vars[a.vararg.arg] = tuple(args[len(params):])
        for p, d in zip(a.kwonlyargs, a.kw_defaults):
            if p.arg in kwargs:
                env.vars[p.arg] = kwargs.pop(p.arg)
            elif d is not None:
                env.vars[p.arg] = self.eval(d, env.parent or env)
            else:
                self.raise_('TypeError', f'missing keyword argument {p.arg}', lineno=lineno)
        if a.kwarg is not None:
            env.vars[a.kwarg.arg] = PDict(kwargs)
        elif kwargs:
            self.raise_('TypeError', f'unexpected keyword {list(kwargs)}', lineno=lineno)

    def call_function(self, fn: FuncVal, args, kwargs, lineno=0, force_inline=False):
        # contract-based (modular) call
        if self.registry is not None and not force_inline and not self.spec_mode:
            summary = self.registry.call_contract(self, fn, args, kwargs, lineno)
            if summary is not _MISSING:
                return summary
        if isinstance(fn.node, ast.Lambda):
            env = Env(fn.closure, fn.module)
            self.bind_args(fn.node, args, kwargs, env, lineno)
            return self.eval(fn.node.body, env)
        if self.depth >= self.inline_limit:
            raise Unsupported(f'inline depth exceeded calling {fn.qualname}')
        if self.registry is not None and not self.spec_mode and not force_inline \
                and not self.registry.may_inline(fn):
            raise Unsupported(f'call to {fn.module}:{fn.qualname} at line {lineno}: no contract and not marked inline')
        env = Env(fn.closure, fn.module)
        self.bind_args(fn.node, args, kwargs, env, lineno)
        if fn.cls:
            env.vars['__class__'] = ClassVal(fn.cls, fn.module)
        self.depth += 1
        self.current_fn.append(fn)
        self.inlined.add(f'{fn.module}:{fn.qualname}')
        is_gen = any(isinstance(n, (ast.Yield, ast.YieldFrom)) for n in walk_no_nested(fn.node))
        if is_gen:
            env.vars['__yielded__'] = []
        try:
            self.exec_block(fn.node.body, env)
            result = None
        except _Return as r:
            result = r.value
        finally:
            self.depth -= 1
            self.current_fn.pop()
        if is_gen:
            return GenVal(env.vars['__yielded__'])
        return result

    def ex_Yield(self, node, env):
        v = self.eval(node.value, env) if node.value is not None else None
        env.lookup('__yielded__').append(v)
        return None

    def ex_YieldFrom(self, node, env):
        items = self.iterate_concrete(self.eval(node.value, env))
        env.lookup('__yielded__').extend(items)
        return None

    def fn_old_view(self):
        return getattr(self, 'entry_view', None)

    # -- operators (delegated) ------------------------------------------------------------
    def binop(self, op, a, b, lineno=0, inplace=False):
        return self.methods.binop(self, op, a, b, lineno, inplace)

    def compare_op(self, op, a, b, lineno=0):
        return self.methods.compare(self, op, a, b, lineno)

    def subscript(self, obj, idx, lineno=0):
        return self.methods.subscript(self, obj, idx, lineno)

    def store_subscript(self, obj, idx, v, lineno=0):
        return self.methods.store_subscript(self, obj, idx, v, lineno)

    def del_subscript(self, obj, idx, lineno=0):
        return self.methods.del_subscript(self, obj, idx, lineno)

    # -- snapshots ---------------------------------------------------------------------------
    def snapshot(self, roots: list) -> dict:
        """Heap view of everything reachable from roots: Box oid -> expr, ('obj', oid) -> fields copy."""
        view: dict = {}
        seen = set()

        def visit(v):
            if isinstance(v, Box):
                if v.oid not in view:
                    view[v.oid] = v.expr
            elif isinstance(v, Obj):
                if v.oid in seen:
                    return
                seen.add(v.oid)
                view[('obj', v.oid)] = dict(v.fields)
                view[('ref', v.oid)] = v
                for f in v.fields.values():
                    visit(f)
            elif isinstance(v, PList):
                if v.oid in seen:
                    return
                seen.add(v.oid)
                view[('plist', v.oid)] = list(v.items)
                view[('ref', v.oid)] = v
                for f in v.items:
                    visit(f)
            elif isinstance(v, PDict):
                if v.oid in seen:
                    return
                seen.add(v.oid)
                view[('pdict', v.oid)] = dict(v.items)
                view[('ref', v.oid)] = v
                for f in v.items.values():
                    visit(f)
            elif isinstance(v, (tuple, list)):
                for f in v:
                    visit(f)
        for r in roots:
            visit(r)
        return view


MUTATING_METHODS = {'append', 'extend', 'add', 'discard', 'remove', 'pop', 'clear', 'insert', 'update',
                    'setdefault', 'sort', 'reverse', 'popitem', 'write', 'appendleft'}

_MISSING = object()


@dataclass
class SliceVal:
    start: Any
    stop: Any
    step: Any


@dataclass
class RangeVal:
    start: Any
    stop: Any
    step: Any = 1


@dataclass
class CountVal:
    start: Any = 0


@dataclass
class EnumerateVal:
    inner: Any
    start: Any = 0


@dataclass
class ZipVal:
    parts: list


@dataclass
class GenVal:
    items: list


class SIter:
    """A one-shot iterator over a symbolic sequence: consumption persists across loops and calls (ghost position)."""
    def __init__(self, seq, pos, length=None) -> None:
        self.seq = seq      # z3 Seq, or (with an explicit length) a z3 Array Int -> element
        self.pos = pos      # z3 Int / int: index of the next element to hand out
        self.length = length if length is not None else z3.Length(seq)
        self.oid = next(_obj_counter)


class Noop:
    """An object whose every method does nothing and returns None (loggers, progress callbacks)."""


class UninterpFn:
    """An uninterpreted function symbol usable as a Python callable value (key_func, casefold, f32, ...)."""
    def __init__(self, name: str, *sorts) -> None:
        self.name = name
        self.decl = z3.Function(name, *sorts)

    def __call__(self, interp, *args):
        return self.decl(*[to_z3(a) for a in args])


def walk_no_nested(fn):
    """ast.walk that does not descend into nested function definitions / lambdas."""
    stack = list(ast.iter_child_nodes(fn))
    while stack:
        n = stack.pop()
        yield n
        if isinstance(n, (ast.FunctionDef, ast.AsyncFunctionDef, ast.Lambda, ast.ClassDef)):
            continue
        stack.extend(ast.iter_child_nodes(n))


def find_import(mod: extract.Module, name: str):
    """Resolve a module-level `from .x import name` / `import x` to a value."""
    for st in extract._walk_defs(mod.tree.body):
        if isinstance(st, ast.ImportFrom):
            for a in st.names:
                if (a.asname or a.name) == name:
                    src = st.module or ''
                    if st.level >= 1 or src.startswith('srctools'):
                        target = src.replace('srctools.', '').replace('srctools', '') if st.level == 0 else src
                        if not target:
                            # from . import x  /  from srctools import x
                            try:
                                extract.load(a.name)
                                return ModuleVal('srctools.' + a.name)
                            except OSError:
                                tm = extract.load('__init__')
                                target = '__init__'
                        try:
                            tm = extract.load(target)
                        except OSError:
                            return None
                        n = extract._find_in(tm.tree.body, a.name)
                        if isinstance(n, ast.ClassDef):
                            return ClassVal(a.name, target)
                        if isinstance(n, ast.FunctionDef):
                            return FuncVal(n, target, a.name)
                        try:
                            return tm.const(a.name)
                        except (KeyError, extract.ConstEvalError):
                            return find_import(tm, a.name)
                    return ModuleVal(f'{src}.{a.name}')
        elif isinstance(st, ast.Import):
            for a in st.names:
                if (a.asname or a.name.split('.')[0]) == name:
                    return ModuleVal(a.name if a.asname else a.name.split('.')[0])
    return None
