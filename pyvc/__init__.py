"""pyvc -- a small verification-condition generator for (a subset of) Python.

It re-reads the real functions of /repo/src/srctools with `ast` on every run, executes them symbolically against
sidecar contracts (see /verif/contracts) and discharges every obligation with z3 (cvc5 as fall-back).
See /verif/DESIGN.md section 2.
"""
