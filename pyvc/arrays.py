"""Byte buffers with symbolic length: array.array('B') / bytearray / memoryview as (z3 Array Int -> BV64, length).

Element reads are bytes (0..255: assumed of harness arrays, *proved* at every store: `byte_store_in_range`).
Strided and contiguous slices are value snapshots of the buffer at the time of the read (assumption: the two
buffers of a codec do not overlap in memory; within one buffer the codecs only assign from the other buffer or
from fresh bytes objects -- `load_ia88` reads data and writes pixels).
"""
from __future__ import annotations

import ast
from dataclasses import dataclass
from typing import Any

import z3

from .symexec import BVW, Box, SliceVal, Unsupported, is_sym_bv, is_sym_int, to_z3

BV = z3.BitVecSort(BVW)


class SArr(Box):
    kind = 'arr'

    def __init__(self, arr, length, pytype='array', fresh=False):
        super().__init__((arr, length), fresh)
        self.pytype = pytype

    @property
    def arr(self):
        return self.expr[0]

    @property
    def length(self):
        return self.expr[1]


@dataclass
class View:
    """Immutable value snapshot: element k (0 <= k < count) is fn(k)."""
    fn: Any          # python callable: z3 Int -> BV
    count: Any       # z3 Int or int


def is_int_arr(a) -> bool:
    arr = a.arr if isinstance(a, SArr) else a
    return arr.sort().range() == z3.IntSort()


def coerce(elem, to_int: bool):
    """Convert an element expression between the Int and the 64-bit-vector representation of a byte."""
    if to_int:
        if is_sym_bv(elem):
            return z3.simplify(z3.BV2Int(elem))
        return elem
    if is_sym_bv(elem):
        return elem
    return z3.Int2BV(elem, BVW)


def byte_ok(v):
    return z3.ULE(v, 255) if is_sym_bv(v) else z3.And(v >= 0, v <= 255)


def as_int(v):
    if isinstance(v, int):
        return z3.IntVal(v)
    if is_sym_bv(v):
        return z3.BV2Int(v)
    return v


def as_bv(I, v, lineno, what='value'):
    if isinstance(v, bool):
        v = int(v)
    if isinstance(v, int):
        return z3.BitVecVal(v, BVW)
    if is_sym_bv(v):
        return v
    if is_sym_int(v):
        return z3.Int2BV(v, BVW)
    raise Unsupported(f'{what} of type {type(v).__name__} stored into a byte buffer')


def slice_count(start, stop, step):
    """Number of indices in range(start, stop, step) for step > 0 with 0 <= start, stop."""
    n = stop - start
    if isinstance(n, int):
        return max(0, (n + step - 1) // step)
    return z3.If(n <= 0, 0, (n + (step - 1)) / step)


def norm_slice(I, sl: SliceVal, length):
    step = 1 if sl.step is None else sl.step
    if not isinstance(step, int) or step <= 0:
        raise Unsupported('buffer slice with symbolic or non-positive step')

    def clamp(v, default):
        if v is None:
            return default
        v = as_int(v)
        if isinstance(v, int) and isinstance(length, int):
            if v < 0:
                v += length
            return min(max(v, 0), length)
        zv, zl = to_z3(v), to_z3(length)
        zv = z3.If(zv < 0, zv + zl, zv)
        return z3.simplify(z3.If(zv < 0, 0, z3.If(zv > zl, zl, zv)))
    start = clamp(sl.start, 0)
    stop = clamp(sl.stop, length)
    return start, stop, step


def get(I, a: SArr, idx, lineno):
    from .builtins_model import norm_index
    if isinstance(idx, SliceVal):
        start, stop, step = norm_slice(I, idx, a.length)
        arr = a.arr
        zs = to_z3(start)
        return View(lambda k, arr=arr, zs=zs, step=step: arr[zs + step * k], slice_count(to_z3(start), to_z3(stop), step))
    i = norm_index(I, as_int(idx), a.length, lineno)
    v = a.arr[to_z3(i)]
    if a.pytype != 'list':
        I.path.assume(byte_ok(v))   # buffer elements are bytes (established at every store)
    return v


def store(I, a: SArr, idx, v, lineno):
    from .builtins_model import norm_index
    if a.pytype == 'bytes':
        I.raise_('TypeError', 'bytes is immutable', lineno=lineno)
    I.effects.append(('mutate', a, 'setitem', lineno))
    if isinstance(idx, SliceVal):
        start, stop, step = norm_slice(I, idx, a.length)
        src = as_view(I, v)
        cnt = slice_count(to_z3(start), to_z3(stop), step)
        same = to_z3(cnt) == to_z3(src.count)
        if not I.path.branch(same, f'slice_sizes_match@{lineno}'):
            I.raise_('ValueError', 'slice assignment size mismatch', lineno=lineno)
        j = z3.Int(I.path.fresh_name('sj'))
        zs, zstop = to_z3(start), to_z3(stop)
        arr = a.arr
        ti = is_int_arr(arr)
        new = z3.Lambda([j], z3.If(z3.And(j >= zs, j < zstop, (j - zs) % step == 0),
                                   coerce(src.fn((j - zs) / step), ti), arr[j]))
        a.expr = (new, a.length)
        return
    i = to_z3(norm_index(I, as_int(idx), a.length, lineno))
    bv = elem_value(I, a, v, lineno)
    I.path.oblige(f'byte_store_in_range@{lineno}', byte_ok(bv), lineno)
    a.expr = (z3.Store(a.arr, i, bv), a.length)


def elem_value(I, a, v, lineno):
    if is_int_arr(a):
        if isinstance(v, bool):
            v = int(v)
        if isinstance(v, int):
            return z3.IntVal(v)
        if is_sym_bv(v):
            return z3.BV2Int(v)
        if is_sym_int(v):
            return v
        raise Unsupported(f'value of type {type(v).__name__} stored into a byte buffer')
    return as_bv(I, v, lineno)


def as_view(I, v) -> View:
    if isinstance(v, View):
        return v
    if isinstance(v, SArr):
        arr = v.arr
        return View(lambda k, arr=arr: arr[k], v.length)
    if isinstance(v, (bytes, bytearray)):
        data = bytes(v)
        if len(set(data)) <= 1:
            c = z3.BitVecVal(data[0] if data else 0, BVW)
            return View(lambda k, c=c: c, len(data))

        def fn(k, data=data):
            e = z3.BitVecVal(data[-1], BVW)
            for i in range(len(data) - 2, -1, -1):
                e = z3.If(k == i, z3.BitVecVal(data[i], BVW), e)
            return e
        return View(fn, len(data))
    raise Unsupported(f'cannot view {type(v).__name__} as bytes')


def repeat_bytes(I, b: bytes, n):
    """b * n for symbolic n (n >= 0 assumed by Python: negative gives empty)."""
    period = len(b)
    zn = to_z3(as_int(n))
    cnt = z3.If(zn < 0, 0, zn * period) if period != 1 else z3.If(zn < 0, 0, zn)
    if len(set(b)) <= 1:
        c = z3.BitVecVal(b[0] if b else 0, BVW)
        return View(lambda k, c=c: c, cnt)

    def fn(k, b=b):
        r = k % period
        e = z3.BitVecVal(b[-1], BVW)
        for i in range(period - 2, -1, -1):
            e = z3.If(r == i, z3.BitVecVal(b[i], BVW), e)
        return e
    return View(fn, cnt)


def zeros(I, n):
    zn = to_z3(as_int(n))
    return View(lambda k: z3.BitVecVal(0, BVW), z3.If(zn < 0, 0, zn))


def extend(I, a: SArr, v, lineno):
    """a += v / a.extend(v): append all elements of a bytes-like value."""
    if a.pytype == 'bytes':
        raise Unsupported('in-place extend of bytes')
    I.effects.append(('mutate', a, 'extend', lineno))
    src = as_view(I, v)
    arr, n = a.arr, a.length
    j = z3.Int(I.path.fresh_name('ej'))
    cnt = to_z3(src.count)
    new = z3.Lambda([j], z3.If(z3.And(j >= n, j < n + cnt), coerce(src.fn(j - n), is_int_arr(arr)), arr[j]))
    a.expr = (new, z3.simplify(n + cnt))


def append(I, a: SArr, v, lineno):
    I.effects.append(('mutate', a, 'append', lineno))
    if a.pytype == 'list':
        a.expr = (z3.Store(a.arr, a.length, to_z3(v)), z3.simplify(a.length + 1))
        return
    bv = elem_value(I, a, v, lineno)
    I.path.oblige(f'byte_store_in_range@{lineno}', byte_ok(bv), lineno)
    a.expr = (z3.Store(a.arr, a.length, bv), z3.simplify(a.length + 1))


def index(I, a: SArr, value, start=0, lineno=0):
    """bytes.index(value, start): first index >= start holding value, else ValueError.
    Summary (trusted): the result is the least such index."""
    I.used_summaries.add('bytes.index(v, start) returns the least index >= start holding v, else ValueError')
    bv = elem_value(I, a, value, lineno)
    zs = to_z3(as_int(start))
    if not (isinstance(start, int) and start >= 0):
        zs = z3.If(zs < 0, z3.If(zs + a.length < 0, 0, zs + a.length), zs)
    k = z3.Int(I.path.fresh_name('ik'))
    found = I.fresh('index_found', z3.BoolSort())
    if I.path.branch(found, f'index.found@{lineno}'):
        zi = I.fresh('zero_ind', z3.IntSort())
        I.path.assume(z3.And(zi >= zs, zi < a.length, a.arr[zi] == bv))
        I.path.assume(z3.ForAll([k], z3.Implies(z3.And(k >= zs, k < zi), a.arr[k] != bv)))
        return zi
    I.path.assume(z3.ForAll([k], z3.Implies(z3.And(k >= zs, k < a.length), a.arr[k] != bv)))
    I.raise_('ValueError', 'subsection not found', lineno=lineno)


def copy_of_view(I, v: View, pytype='bytearray') -> SArr:
    k = z3.Int(I.path.fresh_name('ck'))
    return SArr(z3.Lambda([k], v.fn(k)), to_z3(v.count), pytype, fresh=True)
