"""Extraction of the verified text: the functions are taken from <repo>/src/srctools/<module>.py as they are."""
from __future__ import annotations

import ast
import hashlib
import os
import re
from typing import Any, Optional

REPO = os.environ.get('VERIF_REPO', '/repo')


def set_repo(path: str) -> None:
    global REPO
    REPO = path
    _cache.clear()


def module_path(module: str) -> str:
    return os.path.join(REPO, 'src', 'srctools', module.replace('.', '/') + '.py')


class Module:
    """One parsed source file."""
    def __init__(self, name: str) -> None:
        self.name = name
        self.path = module_path(name)
        with open(self.path, encoding='utf8') as f:
            self.source = f.read()
        self.tree = ast.parse(self.source, self.path)
        self.lines = self.source.splitlines()
        self._consts: dict[str, Any] = {}
        self.generated: list[str] = []
        self._expand_exec_templates()

    def _expand_exec_templates(self) -> None:
        """Class bodies of the form `for <names> in (<literal tuples>): exec(TEMPLATE.format(k=<name>, ...), globals(),
        locals())` define methods from a module-level string template.  The text handed to exec is reconstructed exactly
        (template constant + str.format with the loop's literal values), parsed, and the resulting definitions are added
        to the class body, so the generated methods are verified like written ones.  Nothing else is interpreted."""
        templates = {}
        for st in self.tree.body:
            if isinstance(st, ast.Assign) and len(st.targets) == 1 and isinstance(st.targets[0], ast.Name) \
                    and isinstance(st.value, ast.Constant) and isinstance(st.value.value, str):
                templates[st.targets[0].id] = st.value.value
        for cls in [n for n in ast.walk(self.tree) if isinstance(n, ast.ClassDef)]:
            extra = []
            for st in cls.body:
                if not (isinstance(st, ast.For) and len(st.body) == 1 and isinstance(st.body[0], ast.Expr)
                        and isinstance(st.body[0].value, ast.Call) and ast.unparse(st.body[0].value.func) == 'exec'):
                    continue
                call = st.body[0].value
                fmt = call.args[0] if call.args else None
                if not (isinstance(fmt, ast.Call) and isinstance(fmt.func, ast.Attribute) and fmt.func.attr == 'format'
                        and isinstance(fmt.func.value, ast.Name) and fmt.func.value.id in templates and not fmt.args):
                    continue
                try:
                    rows = ast.literal_eval(st.iter)
                except (ValueError, SyntaxError):
                    continue
                names = [t.id for t in st.target.elts] if isinstance(st.target, ast.Tuple) else [st.target.id]
                for row in rows:
                    row = row if isinstance(row, tuple) else (row,)
                    env = dict(zip(names, row))
                    try:
                        kw = {k.arg: env[k.value.id] for k in fmt.keywords}
                    except (KeyError, AttributeError):
                        break
                    text = templates[fmt.func.value.id].format(**kw)
                    try:
                        sub = ast.parse(text)
                    except SyntaxError:
                        break
                    for d in sub.body:
                        if isinstance(d, ast.FunctionDef):
                            ast.increment_lineno(d, st.lineno - 1)
                            d._generated_from = fmt.func.value.id
                            extra.append(d)
                            self.generated.append(f'{cls.name}.{d.name} <- {fmt.func.value.id}')
            cls.body.extend(extra)

    # -- lookup -------------------------------------------------------------
    def find(self, qualname: str) -> ast.AST:
        """Find a FunctionDef/ClassDef by dotted qualname (nested functions: outer.inner)."""
        body = self.tree.body
        node: Optional[ast.AST] = None
        for part in qualname.split('.'):
            node = _find_in(body, part)
            if node is None:
                raise KeyError(f'{self.name}:{qualname} not found in {self.path}')
            body = getattr(node, 'body', [])
        assert node is not None
        return node

    def find_all(self, qualname: str) -> list[ast.AST]:
        """All definitions with this qualname (property getter/setter pairs, overloads)."""
        parts = qualname.split('.')
        bodies = [self.tree.body]
        for part in parts[:-1]:
            nxt = []
            for b in bodies:
                n = _find_in(b, part)
                if n is not None:
                    nxt.append(n.body)
            bodies = nxt
        out = []
        for b in bodies:
            for st in _walk_defs(b):
                if getattr(st, 'name', None) == parts[-1]:
                    out.append(st)
        return out

    def has(self, qualname: str) -> bool:
        try:
            self.find(qualname)
            return True
        except KeyError:
            return False

    def classdef(self, name: str) -> Optional[ast.ClassDef]:
        n = _find_in(self.tree.body, name)
        return n if isinstance(n, ast.ClassDef) else None

    def segment(self, node: ast.AST) -> str:
        return ast.get_source_segment(self.source, node) or ''

    def sha1(self, node: ast.AST) -> str:
        return hashlib.sha1(self.segment(node).encode('utf8')).hexdigest()

    def span(self, node: ast.AST) -> tuple[int, int]:
        return node.lineno, getattr(node, 'end_lineno', node.lineno)

    # -- module-level constants --------------------------------------------
    def const(self, name: str) -> Any:
        """Evaluate a module-level (or Class.attr) table from its defining AST with a restricted evaluator."""
        if name in self._consts:
            return self._consts[name]
        body = self.tree.body
        parts = name.split('.')
        for part in parts[:-1]:
            cls = _find_in(body, part)
            if cls is None:
                raise KeyError(name)
            body = cls.body
        val = _NOTFOUND
        for st in _walk_defs(body):
            if isinstance(st, ast.Assign):
                for tgt in st.targets:
                    if isinstance(tgt, ast.Name) and tgt.id == parts[-1]:
                        val = self.const_eval(st.value)
            elif isinstance(st, ast.AnnAssign) and st.value is not None:
                if isinstance(st.target, ast.Name) and st.target.id == parts[-1]:
                    val = self.const_eval(st.value)
        if val is _NOTFOUND:
            raise KeyError(f'{self.name}:{name} is not a module-level constant')
        self._consts[name] = val
        return val

    def const_eval(self, node: ast.AST, env: Optional[dict] = None) -> Any:
        return ConstEval(self, env or {}).visit(node)

    def enum_members(self, clsname: str) -> dict[str, Any]:
        """name -> value for the simple assignments in an Enum class body."""
        cls = self.classdef(clsname)
        if cls is None:
            raise KeyError(clsname)
        out: dict[str, Any] = {}
        for st in cls.body:
            if isinstance(st, ast.Assign) and all(isinstance(t, ast.Name) for t in st.targets):
                try:
                    val = self.const_eval(st.value, dict(out))
                except ConstEvalError:
                    continue
                for t in st.targets:        # `A = ALIAS = value` defines the member and its aliases
                    out[t.id] = val
        return out


_NOTFOUND = object()


def _walk_defs(body: list) -> list:
    """Statements of a body, looking through `if`/`try`/`else` at module/class level (not TYPE_CHECKING)."""
    out = []
    for st in body:
        if isinstance(st, ast.If):
            test = st.test
            is_tc = (isinstance(test, ast.Name) and test.id == 'TYPE_CHECKING') or \
                    (isinstance(test, ast.Attribute) and test.attr == 'TYPE_CHECKING')
            if not is_tc:
                out.extend(_walk_defs(st.body))
            out.extend(_walk_defs(st.orelse))
        elif isinstance(st, ast.Try):
            out.extend(_walk_defs(st.body))
            for h in st.handlers:
                out.extend(_walk_defs(h.body))
            out.extend(_walk_defs(st.orelse))
        else:
            out.append(st)
    return out


def _find_in(body: list, name: str) -> Optional[ast.AST]:
    found = None
    for st in _walk_defs(body):
        if isinstance(st, (ast.FunctionDef, ast.AsyncFunctionDef, ast.ClassDef)) and st.name == name:
            # Prefer a non-overload definition; later definitions win (as in Python).
            if isinstance(st, ast.ClassDef) or not _is_overload(st):
                found = st
            elif found is None:
                found = st
    return found


def _is_overload(fn: ast.AST) -> bool:
    for d in getattr(fn, 'decorator_list', []):
        if isinstance(d, ast.Name) and d.id == 'overload':
            return True
        if isinstance(d, ast.Attribute) and d.attr == 'overload':
            return True
    return False


def decorators(fn: ast.AST) -> list[str]:
    out = []
    for d in getattr(fn, 'decorator_list', []):
        if isinstance(d, ast.Call):
            d = d.func
        out.append(ast.unparse(d))
    return out


class ConstEvalError(Exception):
    pass


class ConstEval(ast.NodeVisitor):
    """Restricted evaluator for module tables: literals, containers, comprehensions over them, a few builtins."""
    SAFE_CALLS = {
        'frozenset': frozenset, 'set': set, 'dict': dict, 'list': list, 'tuple': tuple, 'range': range,
        'len': len, 'ord': ord, 'chr': chr, 'str': str, 'int': int, 'float': float, 'bool': bool, 'max': max,
        'min': min, 'sorted': sorted, 'enumerate': enumerate, 'zip': zip, 'bytes': bytes, 'sum': sum,
        'reversed': reversed, 'abs': abs,
    }

    def __init__(self, mod: Module, env: dict) -> None:
        self.mod = mod
        self.env = env

    def generic_visit(self, node: ast.AST) -> Any:
        raise ConstEvalError(f'not a constant expression: {ast.dump(node)[:80]}')

    def visit_Constant(self, node): return node.value
    def visit_Tuple(self, node): return tuple(self.visit(e) for e in node.elts)
    def visit_List(self, node): return [self.visit(e) for e in node.elts]
    def visit_Set(self, node): return {self.visit(e) for e in node.elts}

    def visit_Dict(self, node):
        out = {}
        for k, v in zip(node.keys, node.values):
            if k is None:
                out.update(self.visit(v))
            else:
                out[self.visit(k)] = self.visit(v)
        return out

    def visit_Name(self, node):
        if node.id in self.env:
            return self.env[node.id]
        if node.id in ('True', 'False', 'None'):
            return {'True': True, 'False': False, 'None': None}[node.id]
        try:
            return self.mod.const(node.id)
        except KeyError:
            raise ConstEvalError(f'unknown name {node.id}')

    def visit_Attribute(self, node):
        # re.X flags, Enum.member, struct.Struct(...).size etc. are handled by callers; here only Class.attr consts
        if isinstance(node.value, ast.Name):
            try:
                return self.mod.const(f'{node.value.id}.{node.attr}')
            except KeyError:
                pass
            if node.value.id == 're':
                return getattr(re, node.attr)
        base = self.visit(node.value)
        if isinstance(base, (str, bytes, dict, list, tuple, frozenset, set)) and not node.attr.startswith('_'):
            return getattr(base, node.attr)
        raise ConstEvalError(f'attribute {ast.unparse(node)}')

    def visit_UnaryOp(self, node):
        v = self.visit(node.operand)
        return {ast.USub: lambda x: -x, ast.UAdd: lambda x: +x, ast.Not: lambda x: not x,
                ast.Invert: lambda x: ~x}[type(node.op)](v)

    def visit_BinOp(self, node):
        import operator as op
        ops = {ast.Add: op.add, ast.Sub: op.sub, ast.Mult: op.mul, ast.Div: op.truediv, ast.FloorDiv: op.floordiv,
               ast.Mod: op.mod, ast.Pow: op.pow, ast.LShift: op.lshift, ast.RShift: op.rshift, ast.BitOr: op.or_,
               ast.BitAnd: op.and_, ast.BitXor: op.xor}
        return ops[type(node.op)](self.visit(node.left), self.visit(node.right))

    def visit_Compare(self, node):
        import operator as op
        ops = {ast.Eq: op.eq, ast.NotEq: op.ne, ast.Lt: op.lt, ast.LtE: op.le, ast.Gt: op.gt, ast.GtE: op.ge,
               ast.In: lambda a, b: a in b, ast.NotIn: lambda a, b: a not in b,
               ast.Is: op.is_, ast.IsNot: op.is_not}
        left = self.visit(node.left)
        for o, c in zip(node.ops, node.comparators):
            right = self.visit(c)
            if not ops[type(o)](left, right):
                return False
            left = right
        return True

    def visit_BoolOp(self, node):
        if isinstance(node.op, ast.And):
            v = True
            for e in node.values:
                v = self.visit(e)
                if not v:
                    return v
            return v
        v = False
        for e in node.values:
            v = self.visit(e)
            if v:
                return v
        return v

    def visit_IfExp(self, node):
        return self.visit(node.body) if self.visit(node.test) else self.visit(node.orelse)

    def visit_Subscript(self, node):
        base = self.visit(node.value)
        if isinstance(node.slice, ast.Slice):
            lo = self.visit(node.slice.lower) if node.slice.lower else None
            hi = self.visit(node.slice.upper) if node.slice.upper else None
            st = self.visit(node.slice.step) if node.slice.step else None
            return base[lo:hi:st]
        return base[self.visit(node.slice)]

    def visit_JoinedStr(self, node):
        out = []
        for v in node.values:
            if isinstance(v, ast.Constant):
                out.append(v.value)
            else:
                assert isinstance(v, ast.FormattedValue)
                val = self.visit(v.value)
                spec = self.visit(v.format_spec) if v.format_spec else ''
                if v.conversion == ord('r'):
                    val = repr(val)
                elif v.conversion == ord('s'):
                    val = str(val)
                out.append(format(val, spec))
        return ''.join(out)

    def visit_Call(self, node):
        f = node.func
        args = [self.visit(a) for a in node.args]
        kwargs = {k.arg: self.visit(k.value) for k in node.keywords}
        if isinstance(f, ast.Name) and f.id in self.SAFE_CALLS:
            return self.SAFE_CALLS[f.id](*args, **kwargs)
        if isinstance(f, ast.Attribute):
            if isinstance(f.value, ast.Name) and f.value.id == 're' and f.attr in ('escape', 'compile'):
                return getattr(re, f.attr)(*args, **kwargs)
            if isinstance(f.value, ast.Name) and f.value.id == 'struct' and f.attr in ('Struct', 'calcsize'):
                import struct
                return getattr(struct, f.attr)(*args)
            if isinstance(f.value, ast.Name) and f.value.id == 'str' and f.attr == 'maketrans':
                return str.maketrans(*args)
            base = self.visit(f.value)
            if isinstance(base, (str, bytes, dict, list, tuple, frozenset, set)) and not f.attr.startswith('_'):
                return getattr(base, f.attr)(*args, **kwargs)
        if isinstance(f, ast.Name) and f.id == 'Struct':
            import struct
            return struct.Struct(*args)
        raise ConstEvalError(f'call {ast.unparse(node)[:80]}')

    def _comp(self, generators, emit):
        def rec(i):
            if i == len(generators):
                emit()
                return
            g = generators[i]
            for item in self.visit(g.iter):
                self._bind(g.target, item)
                if all(self.visit(c) for c in g.ifs):
                    rec(i + 1)
        rec(0)

    def _bind(self, target, value):
        if isinstance(target, ast.Name):
            self.env[target.id] = value
        elif isinstance(target, (ast.Tuple, ast.List)):
            vals = list(value)
            for t, v in zip(target.elts, vals):
                self._bind(t, v)
        else:
            raise ConstEvalError('comprehension target')

    def visit_ListComp(self, node):
        out = []
        self._comp(node.generators, lambda: out.append(self.visit(node.elt)))
        return out

    def visit_SetComp(self, node):
        out = set()
        self._comp(node.generators, lambda: out.add(self.visit(node.elt)))
        return out

    def visit_GeneratorExp(self, node):
        return self.visit_ListComp(node)

    def visit_DictComp(self, node):
        out = {}
        def emit():
            out[self.visit(node.key)] = self.visit(node.value)
        self._comp(node.generators, emit)
        return out


_cache: dict[tuple[str, str], Module] = {}


def load(module: str) -> Module:
    key = (REPO, module)
    if key not in _cache:
        _cache[key] = Module(module)
    return _cache[key]
