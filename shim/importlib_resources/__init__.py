"""Shim: /repo/src imports the `importlib_resources` backport, which is not installed in this sandbox.
The stdlib module offers the same `files`/`as_file` API on Python >= 3.9."""
from importlib.resources import files, as_file  # noqa: F401
try:
    from importlib.resources.abc import Traversable  # noqa: F401
except ImportError:  # pragma: no cover
    from importlib.abc import Traversable  # noqa: F401
