#!/bin/sh
# Build /verif/.venv offline: python 3.12 (same interpreter as /venv) + solver/contract tooling from the wheelhouse.
set -e
cd "$(dirname "$0")"
if [ ! -x .venv/bin/python ] || ! .venv/bin/python -c "import z3, deal, icontract, sympy, jsonschema" 2>/dev/null; then
  rm -rf .venv
  /venv/bin/python -m venv .venv
  PIP_NO_INDEX=1 .venv/bin/pip install -q --no-index --find-links /opt/veriftools/wheels \
      z3-solver cvc5 crosshair-tool deal icontract hypothesis jsonschema sympy
  SP=$(.venv/bin/python -c "import site; print(site.getsitepackages()[0])")
  echo "import site; site.addsitedir('/venv/lib/python3.12/site-packages')" > "$SP/zz_venv_overlay.pth"
fi
.venv/bin/python -c "import z3, sympy, jsonschema; print('z3', z3.get_version_string())"
